#!/bin/bash
# Builds /verif/.venv offline: a venv of /venv's interpreter that also sees /venv's
# site-packages (the repository's dependencies) and /repo, plus z3-solver, crosshair-tool
# and cvc5 from the offline wheelhouse.  Idempotent.
set -e
cd "$(dirname "$0")"
V=.venv
if [ -x $V/bin/python ] && $V/bin/python -c 'import z3, crosshair, aiorpcx, electrumx' 2>/dev/null; then
  exit 0
fi
(
  flock 9
  if [ -x $V/bin/python ] && $V/bin/python -c 'import z3, crosshair, aiorpcx, electrumx' 2>/dev/null; then
    exit 0
  fi
  rm -rf $V
  /venv/bin/python -m venv $V
  SP=$($V/bin/python -c 'import site; print(site.getsitepackages()[0])')
  printf '%s\n%s\n' "import site; site.addsitedir('/venv/lib/python3.12/site-packages')" "/repo" > $SP/verif_overlay.pth
  PIP_NO_INDEX=1 $V/bin/pip install -q --no-index --find-links /opt/veriftools/wheels z3-solver crosshair-tool cvc5 jsonschema >/dev/null
  $V/bin/python -c 'import z3, crosshair, aiorpcx, electrumx; print("venv ok", z3.get_version_string())'
) 9>.venv.lock
