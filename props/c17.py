"""C17 - replies stay within the advertised size limits.

K1  real ElectrumX.block_headers + DB.read_headers with start_height, count, cp_height and the
    chain tip all symbolic integers: the returned count is min(count, 2016, max(0, tip+1-start)),
    the bytes read from the headers file are exactly count*80 at offset start*80 inside the file,
    max == 2016, and a header proof is requested only for last <= cp <= tip (else RPCError).
    The headers file is a stub that records the (offset, size) asked for (a byte string of
    symbolic length cannot be materialised); K1c runs the same handler on concrete triples
    around the chain end with the real file layer and checks the hex itself.
K2  real SessionManager.limited_history, ElectrumX.address_status / hashX_subscribe /
    subscription_address_status / _notify_inner with MAX_SEND symbolic and a confirmed history of
    N entries: below the derived limit the full history is returned (also from cache); at or
    above it 'history too large' is raised (also from cache), a subscribe stores nothing, an
    existing subscription is dropped on notification and no status hash is sent for it.
"""
import asyncio

from vlib import symx, chain
from vlib.runner import Kernel
from vlib.symx import engine, deep_eq, z3_and, z3_not, z3_or, z3_implies, SInt


def _run(coro):
    if symx.native():
        return asyncio.new_event_loop().run_until_complete(coro)
    from vlib.world import run_coro
    return run_coro(coro)


class _Blob:
    def __init__(self, size):
        self.size = size

    def hex(self):
        return self

    def __len__(self):
        return 0


def _session(sim, mgr=None):
    import electrumx.server.session as smod
    s = smod.ElectrumX.__new__(smod.ElectrumX)
    s.db = sim.db
    s.env = sim.env
    s.coin = sim.env.coin
    if mgr is None:
        # the real manager (its reorg counter and caches are read by the handlers)
        mgr = smod.SessionManager(sim.env, sim.db, None, None, None, None)
    s.session_mgr = mgr
    s.costs = []
    s.bump_cost = s.costs.append
    s.hashX_subs = {}
    s.mempool_statuses = {}
    s.subscribe_headers = False
    s.sent = []

    async def send_notification(method, args):
        s.sent.append((method, args))
    s.send_notification = send_notification
    import logging
    s.logger = logging.getLogger('verif')
    return s


def k1(shape):
    import electrumx.server.session as smod
    eng = engine()
    sim = chain.Sim(activation=0)
    try:
        sim.open()
        chain.patch_sync()
        db = sim.db
        tip = eng.fresh_int('tip', -1, None)
        db.state.height = tip
        reads = []

        class HF:
            def read(self, offset, size):
                reads.append((offset, size))
                return _Blob(size)
        db.headers_file = HF()
        proofs = []

        async def header_branch_and_root(length, height):
            proofs.append((length, height))
            return [], b'\x00' * 32
        db.header_branch_and_root = header_branch_and_root
        s = _session(sim)
        start = eng.fresh_int('start_height')
        count = eng.fresh_int('count')
        cp = eng.fresh_int('cp_height')
        try:
            res = _run(s.block_headers(start, count, cp))
            err = None
        except smod.RPCError as e:
            res, err = None, e
        valid = z3_and([start >= 0, count >= 0, cp >= 0])
        if res is None:
            # an error reply is right iff an argument is negative or a proof was asked outside the chain
            n = _expected(start, count, tip)
            last = start + n - 1
            eng.prove(z3_or([z3_not(valid), z3_and([n > 0, cp != 0, z3_not(z3_and([last <= cp, cp <= tip]))])]),
                      'K1: a valid headers request is refused', {'signature': 'K1-refused'})
            symx.observe('error', True)
            return
        n = res['count']
        eng.prove(valid, 'K1: negative argument accepted', {'signature': 'K1-negative-accepted'})
        eng.prove(deep_eq(n, _expected(start, count, tip)),
                  'K1: returned count != min(count, 2016, headers available)', {'signature': 'K1-count'})
        eng.prove(z3_and([n <= 2016, n >= 0]), 'K1: more than the advertised maximum returned',
                  {'signature': 'K1-over-max'})
        eng.prove(res['max'] == 2016, 'K1: advertised max wrong', {'signature': 'K1-max'})
        if reads:
            off, size = reads[-1]
            eng.prove(z3_and([len(reads) == 1, deep_eq(off, start * 80), deep_eq(size, n * 80),
                              off + size <= (tip + 1) * 80]),
                      'K1: bytes read are not exactly count headers inside the file', {'signature': 'K1-read-range'})
        else:
            eng.prove(deep_eq(n, 0), 'K1: count > 0 without reading headers', {'signature': 'K1-no-read'})
        if proofs:
            length, height = proofs[-1]
            last = start + n - 1
            eng.prove(z3_and([deep_eq(height, last), deep_eq(length, cp + 1), last <= cp, cp <= tip, cp != 0, n > 0]),
                      'K1: header proof requested outside height <= cp_height <= tip',
                      {'signature': 'K1-proof-range'})
        else:
            eng.prove(z3_or([deep_eq(n, 0), deep_eq(cp, 0)]), 'K1: proof omitted', {'signature': 'K1-proof-omitted'})
        symx.observe('n', n)
    finally:
        sim.close()


def _expected(start, count, tip):
    '''min(count, 2016, max(0, tip + 1 - start)) as a term.'''
    import z3
    if symx.native():
        return min(count, 2016, max(0, tip + 1 - start))
    s, c, t = start.e, count.e, tip.e
    avail = z3.If(t + 1 - s > 0, t + 1 - s, 0)
    m = z3.If(c < 2016, c, 2016)
    return SInt(z3.If(m < avail, m, avail))


def k1c(shape):
    '''Concrete companion: real file layer, hex content.'''
    eng = engine()
    sim = chain.Sim(activation=0)
    try:
        sim.open()
        blocks = [sim.gen_block({'cb': 'A'}, f'b{i}') for i in range(4)]
        for b in blocks:
            sim.advance(b)
        sim.flush(True)
        s = _session(sim)
        tip = 3
        for start in range(0, 6):
            for count in range(0, 6):
                res = _run(s.block_headers(start, count, 0))
                n = min(count, max(0, tip + 1 - start))
                exp = b''.join(b.header for b in blocks[start:start + n]).hex()
                eng.prove(res['count'] == n and res['hex'] == exp and len(res['hex']) == 160 * res['count'],
                          'K1c: headers hex does not match the reported count', {'signature': 'K1c-hex'})
        symx.observe('ok', True)
    finally:
        sim.close()


def k2(shape):
    import electrumx.server.session as smod
    eng = engine()
    N = shape['N']
    max_send = eng.fresh_int('max_send', shape['lo'], shape['hi'])
    sim = chain.Sim(activation=0)
    try:
        sim.open()
        chain.patch_sync()
        sim.env.max_send = max_send
        full = [(bytes([i & 0xff, i >> 8]) * 16, i) for i in range(N)]
        calls = []

        class DB:
            state = sim.db.state

            async def limited_history(self, hashX, *, limit=1000):
                calls.append(limit)
                if len(calls) <= shape.get('overtaken', 0):
                    # a block / mempool notification (touching other script hashes) overtakes this read
                    await mgr._notify_sessions(mgr.notified_height, {b'\x55' * 11})
                if limit is None or bool(limit < 0) or bool(limit >= N):
                    return list(full)
                return full[:int(limit)]

        class MP:
            async def transaction_summaries(self, hashX):
                return []
        mgr = smod.SessionManager(sim.env, DB(), None, None, MP(), None)
        limit = mgr.env.max_send // 99
        s = _session(sim, mgr)
        s.mempool = MP()
        hx = b'\x07' * 11
        too_large = bool(N >= limit)
        eng.note(f'N={N} too_large={too_large}')
        for attempt in ('first', 'cached'):
            try:
                hist, _cost = _run(mgr.limited_history(hx))
                eng.prove(not too_large and hist == full,
                          'K2: truncated or wrong history returned', {'signature': 'K2-truncated', 'attempt': attempt})
            except smod.RPCError as e:
                eng.prove(too_large and 'history too large' in e.message,
                          'K2: history refused below the limit', {'signature': 'K2-refused', 'attempt': attempt})
            if attempt == 'first':
                first_reads = len(calls)
        eng.prove(len(calls) == first_reads, 'K2: cache not used', {'signature': 'K2-cache'})
        # subscribe
        try:
            status = _run(s.hashX_subscribe(hx, 'alias'))
            eng.prove(not too_large and hx in s.hashX_subs and status is not None,
                      'K2: subscription to an oversized history accepted', {'signature': 'K2-subscribe-accepted'})
        except smod.RPCError:
            eng.prove(too_large and hx not in s.hashX_subs and hx not in s.mempool_statuses,
                      'K2: failed subscribe left state behind', {'signature': 'K2-subscribe-state'})
        # an existing subscription meets a notification
        s.hashX_subs[hx] = 'alias'
        _run(s._notify_inner({hx}, True))
        if too_large:
            eng.prove(hx not in s.hashX_subs and hx not in s.mempool_statuses,
                      'K2: oversized subscription kept after notification', {'signature': 'K2-sub-kept'})
            eng.prove(all(args[1] is None for _m, args in s.sent),
                      'K2: a status was sent for an oversized history', {'signature': 'K2-status-sent'})
        else:
            eng.prove(hx in s.hashX_subs and len(s.sent) == 1 and s.sent[0][1][1] is not None,
                      'K2: notification for a normal subscription missing', {'signature': 'K2-notify'})
        symx.observe('too_large', too_large)
    finally:
        sim.close()


def k2_shapes(tier):
    # limit = max(350000, MAX_SEND) // 99; the floor gives 3535
    out = [{'N': 3535, 'lo': 0, 'hi': 350000 + 99 * 2},          # around the floor: limit 3535..3537
           {'N': 3534, 'lo': 340000, 'hi': 350100},
           {'N': 3537, 'lo': 349900, 'hi': 350000 + 99 * 3}]
    # the first k database reads of the request are each overtaken by a notification
    out += [{'N': 3536, 'lo': 349900, 'hi': 350000 + 99 * 3, 'overtaken': k} for k in ((3, 4) if tier == 'quick' else (1, 2, 3, 4, 6))]
    if tier == 'thorough':
        out += [{'N': 5000, 'lo': 99 * 4998, 'hi': 99 * 5003}, {'N': 10101, 'lo': 1000000 - 200, 'hi': 1000000 + 200},
                {'N': 3, 'lo': 0, 'hi': 10 ** 9}]
    return out


KERNELS = [
    Kernel('K1', k1, lambda tier: [{}],
           desc='block_headers / read_headers arithmetic over symbolic integers',
           encodes=['electrumx/server/session.py:ElectrumX.block_headers', '_merkle_proof', 'non_negative_integer',
                    'electrumx/server/db.py:DB.read_headers'],
           bounds='start_height, count, cp_height: all integers; tip: every integer >= -1',
           outside='non-integer JSON arguments (C16)',
           assumptions=['headers file replaced by a stub recording (offset, size); header merkle proof replaced '
                        'by a stub recording (length, height)'],
           witnesses=2),
    Kernel('K1c', k1c, lambda tier: [{}], desc='concrete companion of K1: hex content on a 4-block chain',
           encodes=['electrumx/server/session.py:ElectrumX.block_headers', 'electrumx/server/db.py:DB.read_headers',
                    'electrumx/lib/util.py:LogicalFile.read'],
           bounds='start, count in 0..5 on a chain of 4 blocks (concrete; not a solver verdict)', outside='-',
           witnesses=1),
    Kernel('K2', k2, k2_shapes,
           desc='history size limit with symbolic MAX_SEND',
           encodes=['electrumx/server/session.py:SessionManager.__init__', 'SessionManager.limited_history',
                    'ElectrumX.address_status', 'hashX_subscribe', 'subscription_address_status', '_notify_inner',
                    'unsubscribe_hashX'],
           bounds='history length N in {3534, 3535, 3537} (quick) plus {3, 5000, 10101} (thorough); MAX_SEND any '
                  'integer of a window around the values where N meets the derived limit (incl. everything below '
                  'the 350000 floor); the first k reads of a request overtaken by a notification, k in {3, 4} (quick) / '
                  '{1, 2, 3, 4, 6} (thorough)',
           outside='other history lengths; the DB read itself (C02)',
           assumptions=['DB.limited_history replaced by a stub returning the first limit entries of a fixed history'],
           witnesses=1),
]
