"""C06 - shutdown at any moment leaves a consistent database and keeps finished work.

The real fetch_and_process_blocks (with its run_with_lock / asyncio.shield / flush_if_safe) runs
in the full system of vlib/fullsim under the gate scheduler, in the phases initial sync, caught
up (new blocks) and reorganisation.  Shutdown - set the shutdown event and cancel every task, as
the server does on SIGTERM - is a schedule deviation the solver may place at ANY step.  Worker
jobs of the block processor run in real threads that park at every durable storage operation
(batch commit, put, file write); each continuation is a gate, so that with a second deviation
(postpone a continuation) "the cancelled flush is still running in its thread while the shutdown
path flushes" is a schedulable interleaving.  Unfinished worker threads finish after the task
has returned (the executor joins them at exit).  Then the database is reopened: the index must
equal the reference of the chain up to the stored height, and the stored height must include
every block whose processing had completed.
"""
from vlib import symx, chain
from vlib.runner import Kernel
from vlib.symx import engine


def scenario(shape):
    from vlib import story
    st = story.Story(shape)
    eng = st.eng
    try:
        st.run()
        fs, sim = st.fs, st.sim
        if not fs.stopped:
            # no shutdown chosen on this path: stop when idle (the ordinary clean stop)
            fs.shutdown()
        fs.finish_shutdown()
        mem_height = fs.bp.state.height
        mem_tip = bytes(fs.bp.state.tip)
        eng.note('deviations: ' + ' | '.join(t for t in fs.sched.trace if t.startswith(('postpone', 'event:'))))
        fs.sched.deviations = 0
        sim.world.durable.preempt = None
        state = sim.open()                                   # restart
        h = state.height
        eng.prove(h == mem_height, 'the stored height does not include every block whose processing had completed',
                  {'signature': 'finished-work-lost', 'stored': h, 'completed': mem_height})
        # which chain is the index on?
        candidates = [st.main] + list(st.old_chains)
        ref = None
        for cand in candidates:
            if h < len(cand) and bytes(cand[h].hash) == bytes(state.tip):
                ref = cand[:h + 1]
                break
        eng.prove(ref is not None or h == -1, 'the stored tip is not a block of any chain the daemon announced',
                  {'signature': 'unknown-tip'})
        if ref is not None:
            sim.chain = list(ref)
            try:
                chain.check_index(sim, 'reopened', check_limits=False)
            except chain.ReaderSpins as e:
                eng.prove(False, 'after restart a reader spins on transactions beyond the stored height',
                          {'signature': 'reader-spins', 'message': str(e)})
        symx.observe('stored', h)
    finally:
        st.fs.close()
        st.sim.close()


cbA, cbB, cbC = {'cb': 'A'}, {'cb': 'B'}, {'cb': 'C'}
payA = {'cb': 'C', 'txs': [{'ins': 1, 'outs': 'A'}]}
payAB = {'cb': 'C', 'txs': [{'ins': 1, 'outs': 'AB'}]}
INITIAL = [cbA, cbB, {'cb': 'C', 'txs': [{'ins': 1, 'outs': 'AC'}]}]


def shapes(tier):
    base = {'sessions': False, 'shutdown': True, 'split_jobs': True, 'early': False, 'rounds': 1}
    out = [
        # shutdown anywhere in: initial sync, caught up with a new block
        dict(base, initial=INITIAL, deviations=1, explore_startup=True, script=[('block', payA)]),
        # shutdown anywhere in a natural reorg
        dict(base, initial=INITIAL + [cbA], deviations=1, script=[('reorg', 1, [cbB, payAB])]),
        # shutdown anywhere in a forced reorg
        dict(base, initial=INITIAL + [cbA], deviations=1, script=[('force_reorg', 1)]),
        # shutdown plus one postponed gate (e.g. a worker job still running while the shutdown path flushes)
        dict(base, initial=INITIAL, deviations=2, window=6, script=[('block', payA)]),
    ]
    # worker jobs also preemptible at every store READ: shutdown while a block is half advanced (ok == False)
    out.append(dict(base, split_jobs='reads', initial=INITIAL, deviations=1, script=[('block', payA)]))
    # the daemon reorganises while a new block is being advanced: the next fetched block does not connect (reorg
    # detection) while the advanced block is still unflushed; shutdown anywhere
    out.append(dict(base, initial=INITIAL, deviations=1,
                    script=[(('when', 'bp:advance_block', 1), ('reorg', 1, [cbB, payAB, cbC])), ('block', payA)]))
    # the real OnDiskBlock prefetcher: shutdown while block downloads are still in flight (and blocks already processed)
    out.append(dict(base, real_odb=True, initial=INITIAL + [cbA, payA], deviations=1, explore_startup=True, script=[]))
    # cache pressure: check_cache_size_loop asks for a flush while blocks are being advanced
    for arg in (True, False):
        out.append(dict(base, initial=INITIAL + [cbA], deviations=1, explore_startup=True, script=[],
                        startup_triggers=[(('block:', 3), ('force_flush', arg))]))
    if tier == 'thorough':
        # every quick story again with a second deviation (a postponed gate) within 14 steps of the shutdown
        quick = [sh for sh in list(out) if sh.get('deviations') == 1]
        out += [dict(sh, deviations=2, window=14) for sh in quick]
        # and the first three (new block, natural reorg, forced reorg) with three deviations within 8 steps
        out += [dict(sh, deviations=3, window=8) for sh in quick[:3]]
        out += [
            dict(base, initial=INITIAL + [cbA], deviations=2, window=8, script=[('reorg', 1, [cbB, payAB])]),
            dict(base, initial=INITIAL + [cbA], deviations=2, window=8, script=[('force_reorg', 1)]),
            dict(base, initial=INITIAL, deviations=2, window=8, explore_startup=True, script=[('block', payA), ('block', cbB)]),
            dict(base, initial=INITIAL + [cbA, cbB], deviations=2, window=8, script=[('reorg', 2, [cbC, cbA, payA])]),
            dict(base, split_jobs='reads', initial=INITIAL, deviations=1, explore_startup=True,
                 script=[('block', payA), ('block', payAB)]),
            dict(base, split_jobs='reads', initial=INITIAL + [payA], deviations=1, script=[('reorg', 1, [cbB, payAB])]),
            dict(base, split_jobs='reads', initial=INITIAL, deviations=2, window=8, script=[('block', payA)]),
        ]
    return out


KERNELS = [
    Kernel('SHUTDOWN', scenario, shapes,
           desc='shutdown at any scheduler step, worker jobs preemptible at storage operations',
           encodes=['electrumx/server/block_processor.py:BlockProcessor.fetch_and_process_blocks', 'run_with_lock',
                    'flush_if_safe', 'flush', 'on_caught_up', 'advance_blocks', 'advance_block', 'reorg_chain',
                    'backup_block', 'next_block_hashes', 'electrumx/server/db.py:DB.flush_dbs', 'flush_fs',
                    'flush_utxo_db', 'flush_backup', 'assert_flushed', 'electrumx/server/history.py:History.flush',
                    'backup'],
           bounds='start of 3..5 blocks, then one new block / a natural reorg of depth 1..2 / a forced reorg; shutdown at '
                  'every scheduler step (deviation 1), in one shape (thorough: four) also at every store read of a '
                  'worker job, i.e. while a block is half advanced; with a second deviation within 6..8 steps: postpone any pending '
                  'gate (including the continuation of a worker job parked at a storage operation) for a full timer '
                  'round (thorough: every story with two deviations within 14 steps, three stories with three within 8); remaining '
                  'worker threads finish after the task returned',
           outside='preemption finer than one durable storage operation (bytecode level), signals during process '
                   'start-up before the task exists, more than two (three) deviations',
           assumptions=['daemon, prefetch, sleeps are stubs (vlib/fullsim.py); sessions and mempool not started',
                        'worker threads not finished at exit are joined (concurrent.futures joins its threads at '
                        'interpreter exit)',
                        'LevelDB modelled by MemStore, meta files by MemFS (symbolic mode)'],
           witnesses=1, split_depth=1),
]
