"""DBLOOKUP - a mempool refresh wired to the REAL DB.lookup_utxos (shared by C08 and C09)."""
from vlib import symx, chain
from vlib.runner import Kernel
from vlib.symx import engine, deep_eq, z3_and


def dblookup(shape):
    '''A refresh against the REAL index: MemPoolAPI.lookup_utxos is the real DB.lookup_utxos (as wired
    in controller.py) over a flushed symbolic chain.  One mempool transaction spends an existing
    output, another spends an outpoint that is NOT in the index (the daemon is ahead / a reorg
    raced) but whose hash may share the 4-byte compressed prefix and the index with an existing
    output.  The first must be recorded with exactly the index's script hash and value, the second
    must not be recorded at all.'''
    import asyncio
    import electrumx.server.mempool as mpmod
    import electrumx.server.db as dbmod
    from electrumx.lib.tx import Tx, TxInput, TxOutput
    from electrumx.lib.hash import hash_to_hex_str
    eng = engine()
    sim = chain.Sim(activation=0)
    sim.collide = {frozenset(('ghost', 'b1t1')), frozenset(('ghost', 'b0t0'))}
    specs = [{'cb': 'A'}, {'cb': 'B', 'txs': [{'ins': 1, 'outs': shape['outs']}]}]
    if shape.get('live_collide'):
        # two LIVE outputs may share prefix and index: the candidate scan must go past the first
        specs = [{'cb': 'A'}, {'cb': 'B'}, {'cb': 'C', 'txs': [{'ins': 1, 'outs': shape['outs']}]}]
        sim.collide = {frozenset(('b1t0', 'b2t1')), frozenset(('ghost', 'b2t1'))}
    try:
        sim.open()
        for i, spec in enumerate(specs):
            sim.advance(sim.gen_block(spec, f'b{i}'))
        sim.flush(True)
        live = sim.utxos()
        target = live[eng.choice('spent_output', len(live))]
        ghost = sim.new_hash('ghost')
        gidx = eng.choice('ghost_idx', 2)
        tA = Tx(1, [TxInput(target.txhash, target.idx, b'', 0)], [TxOutput(5, chain.SCRIPTS['C'])], 0)
        tG = Tx(1, [TxInput(ghost, gidx, b'', 0)], [TxOutput(7, chain.SCRIPTS['C'])], 0)
        hA, hG = b'\\xa1' * 32, b'\\xa2' * 32
        raws = {b'RAW' + hA: tA, b'RAW' + hG: tG}
        order = [hA, hG] if eng.choice('order', 2) == 0 else [hG, hA]
        handed = []

        class Api(mpmod.MemPoolAPI):
            async def height(self): return len(specs) - 1
            def cached_height(self): return len(specs) - 1
            def db_height(self): return sim.db.state.height
            async def mempool_hashes(self): return [hash_to_hex_str(h) for h in order]
            async def raw_transactions(self, hex_hashes): return [b'RAW' + bytes(reversed(bytes.fromhex(h))) for h in hex_hashes]
            async def lookup_utxos(self, prevouts): return await sim.db.lookup_utxos(prevouts)
            async def on_mempool(self, touched, height): handed.append((set(touched), height))

        async def inline(f, *a):
            return f(*a)
        saved = (mpmod.read_tx, mpmod.run_in_thread, mpmod.sleep, dbmod.run_in_thread)
        mpmod.read_tx = lambda raw, cursor: (raws[bytes(raw)], 100)
        mpmod.run_in_thread = inline
        db_jobs = []
        spent_by_block = []

        async def db_inline(f, *a):
            db_jobs.append(getattr(f, '__name__', '?'))
            if shape.get('flush_between') and len(db_jobs) == 2:
                # a block (spending a solver-chosen live output, possibly the target) is indexed and flushed
                # between the two passes of lookup_utxos (script hash from the 'h' table, value from the 'u' table)
                blk = sim.gen_block({'cb': 'B', 'txs': [{'ins': 1, 'outs': 'A'}]}, 'bx')
                sim.advance(blk)
                await sim.bp.flush(True)
                spent_by_block.extend(o for tx in blk.txs for o in tx.ins)
            return f(*a)
        dbmod.run_in_thread = db_inline

        class Stop(Exception):
            pass

        async def sleep(secs):
            raise Stop()
        mpmod.sleep = sleep
        import logging
        logging.disable(logging.CRITICAL)
        mp = mpmod.MemPool(sim.env.coin, Api())
        loop = asyncio.new_event_loop()
        try:
            try:
                loop.run_until_complete(mp._refresh_hashes(asyncio.Event()))
            except Stop:
                pass
        finally:
            loop.close()
            mpmod.read_tx, mpmod.run_in_thread, mpmod.sleep, dbmod.run_in_thread = saved
        eng.prove(hG not in mp.txs, 'a transaction spending an outpoint that is not in the index was recorded',
                  {'signature': 'ghost-accepted'})
        if shape.get('flush_between'):
            eng.prove(len(db_jobs) >= 2, 'harness: lookup_utxos no longer runs two jobs', {'signature': 'harness-two-pass'})
        if not any(o is target for o in spent_by_block):
            eng.prove(hA in mp.txs, 'a transaction spending an existing output was not recorded',
                      {'signature': 'valid-dropped'})
        if hA in mp.txs:
            pairs = mp.txs[hA].in_pairs
            eng.prove(len(pairs) == 1 and z3_and([deep_eq(pairs[0][0], target.hashX), deep_eq(pairs[0][1], target.value)]),
                      'a recorded transaction has a wrong input script hash or value', {'signature': 'wrong-input'})
        symx.observe('recorded', sorted(k.hex()[:4] for k in mp.txs))
    finally:
        sim.close()


KERNEL = (
    Kernel('DBLOOKUP', dblookup, lambda tier: [{'outs': 'AC'}, {'outs': 'AC', 'live_collide': True}, {'outs': 'AC', 'flush_between': True}] + ([{'outs': 'SA'}, {'outs': 'SA', 'live_collide': True}] if tier == 'thorough' else []),
           desc='mempool refresh against the real DB.lookup_utxos with a missing outpoint free to collide on prefix+index',
           encodes=['electrumx/server/db.py:DB.lookup_utxos', 'electrumx/server/mempool.py:MemPool._fetch_and_accept',
                    '_accept_transactions', '_process_mempool'],
           bounds='2-block flushed symbolic chain (tx-hash prefixes, values symbolic), one mempool transaction spending '
                  'any live output (solver-enumerated), one spending an absent outpoint whose hash may share the 4-byte '
                  'prefix with either chain transaction, index 0 or 1, both delivery orders; second shape: 3 blocks with '
                  'two LIVE outputs free to share prefix and index; third shape: a block spending a solver-chosen live '
                  'output is indexed and flushed between the two passes of lookup_utxos',
           outside='more transactions; symbolic mempool transaction hashes (they travel as hex strings)',
           assumptions=['LevelDB modelled by MemStore', 'the absent outpoint differs from every indexed outpoint'],
           witnesses=1, prescribe=('sha256',)))
