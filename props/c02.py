"""C02 - confirmed history of every script hash is complete, ordered and duplicate-free.

K3  the C01 chain scenario with the history read paths compared against the reference
    (limited_history for every script-hash class and every limit, fs_tx_hash for every
    transaction number, fs_tx_hashes_at_blockheight for every height).
K1  history row layout: real History.add_unflushed / flush / get_txnums over several flushes with
    symbolic script hashes (possibly equal), a symbolic touched subset per transaction
    (including the same script hash several times in one transaction), transaction numbers at
    byte-boundary values, and a symbolic limit (any integer or None).
K2  fs_tx_hash with symbolic cumulative transaction counts (every bisect boundary) and a symbolic
    stored height.
"""
from vlib import symx, chain
from vlib.runner import Kernel
from vlib.symx import engine, deep_eq, z3_and, z3_not, z3_or, z3_implies
from props import c01


def k3(shape):
    return c01.k3(shape, history=True, utxos=False)


def k3_shapes(tier):
    shapes = c01.k3_shapes(tier)
    if tier == 'quick':
        shapes = [s for s in shapes if not s['collide']]
    return shapes


def k1(shape):
    eng = engine()
    sim = chain.Sim(activation=0)
    try:
        sim.open()
        hist = sim.db.history
        nh = shape['hashXs']
        hxs = [eng.fresh_bytes(f'hx{i}', 11) for i in range(nh)]
        eng.hint_distinct(hxs)
        expected = {i: [] for i in range(nh)}
        for f, (first, ntx) in enumerate(shape['flushes']):
            by_tx = []
            for t in range(ntx):
                # which script hashes transaction t touches (solver-enumerated pattern; includes
                # none, one, several, and the same one twice)
                pats = [[], [0], [nh - 1, 0], [0, nh - 1, 0]] + ([[1]] if nh > 2 else [])
                k = eng.choice(f'f{f}t{t}', len(pats))
                by_tx.append([hxs[i] for i in pats[k]])
            hist.add_unflushed(by_tx, first)
            for t in range(ntx):
                for i in range(nh):
                    # reference: tx touches class of hxs[i] if any listed hashX equals it
                    if any(bool(h == hxs[i]) for h in by_tx[t]):
                        expected[i].append(first + t)
            hist.flush()
        for i in range(nh):
            got = list(hist.get_txnums(hxs[i], limit=None))
            eng.prove(len(got) == len(expected[i]) and z3_and([deep_eq(a, b) for a, b in zip(got, expected[i])]),
                      'K1: get_txnums != reference list', {'signature': 'K1-get_txnums'})
            symx.observe(f'txnums{i}', list(got))
        # a symbolic limit on script hash 0
        limit = eng.fresh_int('limit')
        got = list(hist.get_txnums(hxs[0], limit=limit))
        exp = expected[0]
        n = len(got)
        # got must be the first min(limit, len) entries; negative = unlimited
        ok_len = z3_or([z3_and([limit < 0, n == len(exp)]),
                        z3_and([limit >= 0, limit >= len(exp), n == len(exp)]),
                        z3_and([limit >= 0, limit < len(exp), limit == n])])
        eng.prove(z3_and([ok_len] + [deep_eq(a, b) for a, b in zip(got, exp)]),
                  'K1: limited get_txnums is not the first limit entries', {'signature': 'K1-limit'})
        symx.observe('limited', list(got))
    finally:
        sim.close()


def k1_shapes(tier):
    B = [0, 255, 65535, (1 << 32) - 2, (1 << 40) - 3]
    out = [{'hashXs': 2, 'flushes': [[0, 2], [255, 1]]},
           {'hashXs': 2, 'flushes': [[65535, 1], [(1 << 32) - 2, 1], [(1 << 40) - 3, 1]]}]
    if tier == 'thorough':
        out += [{'hashXs': 2, 'flushes': [[B[i], 2], [B[i + 1], 2]]} for i in range(0, 4)]
        out += [{'hashXs': 2, 'flushes': [[254, 3], [65534, 2]]},
                {'hashXs': 3, 'flushes': [[0, 2], [2, 2]]}]
    return out


def k2(shape):
    '''fs_tx_hash: bisect over symbolic cumulative counts.'''
    eng = engine()
    sim = chain.Sim(activation=0)
    try:
        sim.open()
        db = sim.db
        H = shape['blocks']
        counts = []
        prev = 0
        for h in range(H):
            c = eng.fresh_int(f'count{h}')
            if not sim.native:
                eng.assume(c > prev)           # every block has at least its coinbase
                eng.assume(c <= prev + 3)
            prev = c
            counts.append(c)
        height = eng.fresh_int('stored_height', -1, H - 1)
        db.tx_counts = counts
        db.state.height = height
        n_tx = H * 3 + 1
        hashes = [bytes([i + 1]) * 32 for i in range(n_tx)]
        db.hashes_file.write(0, b''.join(hashes))
        for tx_num in range(0, n_tx):
            tx_hash, tx_height = db.fs_tx_hash(tx_num)
            # reference: the height whose cumulative count brackets tx_num
            terms = []
            for h in range(H + 1):
                lo = counts[h - 1] if h > 0 else 0
                cond = [tx_num >= lo] + ([tx_num < counts[h]] if h < H else [])
                terms.append(z3_implies(z3_and(cond), tx_height == h))
            eng.prove(z3_and(terms), 'K2: fs_tx_hash returns a wrong height', {'signature': 'K2-height'})
            th = tx_height if isinstance(tx_height, int) else int(tx_height)
            if tx_hash is None:
                eng.prove(z3_not(th <= height), 'K2: fs_tx_hash withholds a hash at or below the stored height',
                          {'signature': 'K2-none'})
            else:
                eng.prove(z3_and([th <= height, deep_eq(chain._bytes(tx_hash), hashes[tx_num])]),
                          'K2: fs_tx_hash returns a wrong hash', {'signature': 'K2-hash'})
        symx.observe('ok', True)
    finally:
        sim.close()


KERNELS = [
    Kernel('K3', k3, k3_shapes,
           desc='symbolic chain from genesis, history read paths vs reference',
           encodes=['electrumx/server/block_processor.py:BlockProcessor.advance_block',
                    'electrumx/server/history.py:History.add_unflushed', 'flush', 'get_txnums',
                    'electrumx/server/db.py:DB.limited_history', 'fs_tx_hash', 'fs_tx_hashes_at_blockheight',
                    'flush_fs', 'flush_history'],
           bounds='as C01-K3; every script-hash class of the scenario, every limit in 0..n+1 and None',
           outside='as C01-K3; flush ids beyond 65535',
           assumptions=['LevelDB modelled by MemStore', 'meta files modelled by MemFS'],
           witnesses=1, prescribe=('sha256',), split_depth=14),
    Kernel('K1', k1, k1_shapes,
           desc='history rows over several flushes, symbolic script hashes / touched subsets / limit',
           encodes=['electrumx/server/history.py:History.add_unflushed', 'flush', 'get_txnums', 'write_state',
                    'electrumx/lib/util.py:resolve_limit', 'chunks'],
           bounds='<= 3 flushes, <= 3 script hashes (11 symbolic bytes each, may coincide), <= 3 transactions per '
                  'flush each touching every script hash 0, 1 or 2 times (solver-enumerated), first transaction '
                  'numbers at the byte boundaries 0, 255, 65535, 2^32-2, 2^40-3; limit any integer',
           outside='transaction numbers other than the listed boundary values (enumerate() needs a concrete '
                   'start), more rows per script hash',
           witnesses=1),
    Kernel('K2', k2, lambda tier: [{'blocks': 3}] if tier == 'quick' else [{'blocks': 3}, {'blocks': 4}],
           desc='fs_tx_hash: bisect over symbolic cumulative counts, symbolic stored height',
           encodes=['electrumx/server/db.py:DB.fs_tx_hash'],
           bounds='3 (quick) / 4 (thorough) blocks with 1..3 transactions each (counts symbolic), stored height '
                  'symbolic in [-1, H-1], every transaction number up to the total',
           outside='more blocks', witnesses=1),
]
