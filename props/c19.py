"""C19 - only verified, public, recently good peers are advertised, spread over networks.

K1  (symx) real PeerManager.on_peers_subscribe / _get_recent_good_peers over a set of peers whose
    hosts come from a hand-labelled pool (labels written from the address registries, not taken
    from Peer.is_public), with every peer's last_good a symbolic real against a symbolic clock,
    its bad flag symbolic, random.shuffle an arbitrary (solver-chosen) permutation, the requester
    on tor or not, and 0..60 onion peers.  Every tuple returned must be a recent, not-bad,
    publicly routable peer or one of the server's own recently verified identities; at most two
    per external bucket (/16, /56); onion peers at most 50 (tor) / max(10, n // 4).
K2  (CrossHair) Peer.peers_from_features on arbitrary JSON feature dictionaries - see
    props/c16_targets.py (p_peers_from_features, p_features_any).
K3  (symx) Peer.peers_from_features -> Peer._port / _integer with the announced tcp_port and
    ssl_port unbounded symbolic integers (and, per shape, a concrete numeric string, bool, float,
    None or container in one of the two slots): every port of every peer built is absent or an
    int (not a JSON boolean) in 1..65535, also in what to_tuple / serialize hand on.
"""
from vlib import symx, xhair
from vlib.runner import Kernel
from vlib.symx import engine, z3_and, z3_not, z3_or

# host, address connected to, publicly routable?, external bucket label
POOL = {
    'g1': ('8.8.8.8', '8.8.8.8', True, 'v4:8.8'),
    'g2': ('8.8.4.4', '8.8.4.4', True, 'v4:8.8'),
    'g3': ('8.8.200.1', '8.8.200.1', True, 'v4:8.8'),
    'c1': ('1.1.1.1', '1.1.1.1', True, 'v4:1.1'),
    'n1': ('example.com', '93.184.216.34', True, 'v4:93.184'),
    'n2': ('sv.example.org', '93.184.1.2', True, 'v4:93.184'),
    'p1': ('192.168.1.5', '192.168.1.5', False, None),
    'p2': ('10.0.0.1', '10.0.0.1', False, None),
    'p3': ('172.16.5.5', '172.16.5.5', False, None),
    'lo': ('127.0.0.1', '127.0.0.1', False, None),
    'll': ('169.254.1.1', '169.254.1.1', False, None),
    'mc': ('224.0.0.1', '224.0.0.1', False, None),
    'mc2': ('224.0.1.1', '224.0.1.1', False, None),
    'mc3': ('239.255.255.250', '239.255.255.250', False, None),
    'm6': ('ff0e::1', 'ff0e::1', False, None),
    'm62': ('ff02::1', 'ff02::1', False, None),
    'bc': ('255.255.255.255', '255.255.255.255', False, None),
    'rs': ('240.0.0.1', '240.0.0.1', False, None),
    'un': ('0.0.0.0', '0.0.0.0', False, None),
    'cg': ('100.64.0.1', '100.64.0.1', False, None),
    'doc': ('192.0.2.1', '192.0.2.1', False, None),
    'a6': ('2001:4860:4860::8888', '2001:4860:4860::8888', True, 'v6:2001:4860:4860:00'),
    'b6': ('2001:4860:4860:1::1', '2001:4860:4860:1::1', True, 'v6:2001:4860:4860:00'),
    'c6': ('2606:4700:4700::1111', '2606:4700:4700::1111', True, 'v6:2606:4700:4700:00'),
    'u6': ('fd00::1', 'fd00::1', False, None),
    'l6': ('::1', '::1', False, None),
    'k6': ('fe80::1', 'fe80::1', False, None),
    'bad': ('bad_host!.com', '93.184.9.9', False, None),
    'lh': ('localhost', '127.0.0.1', False, None),
    'dot': ('a..b.com', '93.184.7.7', False, None),
}
STALE = 3 * 3600


def k1(shape):
    import electrumx.server.peers as pmod
    from electrumx.lib.peer import Peer
    from vlib.world import World
    eng = engine()
    w = World(native=symx.native())
    env = w.make_env() if symx.native() else _env(w)
    now = eng.fresh_real('now')
    if not symx.native():
        eng.assume(now > 10 ** 6)

    class T:
        @staticmethod
        def time():
            return now

    def _name(kind):
        c = eng.path_local['shuffles'] = eng.path_local.get('shuffles', 0) + 1
        return f'{kind}{c}'

    class R:
        @staticmethod
        def shuffle(lst):
            n = len(lst)
            if n <= 1:
                return
            if n <= 3:
                # arbitrary permutation, chosen by the solver
                items = list(lst)
                out = []
                for i in range(n - 1):
                    nm = _name('shuf') + f'_{i}'
                    k = eng.choice(nm, len(items))
                    assert 0 <= k < len(items), (nm, k, len(items), n)
                    out.append(items.pop(k))
                out += items
                lst[:] = out
            else:
                k = eng.choice(_name('rot'), n)
                lst[:] = lst[k:] + lst[:k]
    saved = (pmod.time, pmod.random)
    pmod.time, pmod.random = T, R
    try:
        pm = pmod.PeerManager(env, None)

        class OrderedSet(dict):
            '''set with insertion-order iteration (Peer objects hash by identity, so a real set
            would iterate in an address-dependent order and the exploration would not be
            deterministic)'''
            def add(self, x):
                self[x] = True
        pm.peers = OrderedSet()
        Peer.DEFAULT_PORTS = {'t': '50001', 's': '50002'}
        info = {}
        for i, key in enumerate(shape['peers']):
            host, ip, public, bucket = POOL[key]
            lg = eng.fresh_real(f'last_good{i}')
            bad = eng.fresh_bool(f'bad{i}')
            p = Peer(host, {'hosts': {host: {'tcp_port': 50001}}}, 'peer', ip_addr=ip, last_good=lg)
            p.bad = bad
            pm.peers.add(p)
            info[host] = (lg, bad, public, bucket)
        for j in range(shape['onion']):
            host = f'onionpeer{j:02d}abcdefgh.onion'
            lg = now if shape.get('onion_recent', True) else 0
            p = Peer(host, {'hosts': {host: {'tcp_port': 50001}}}, 'peer', ip_addr=host, last_good=lg)
            pm.peers.add(p)
            info[host] = (lg, False, True, 'onion')
        mine = None
        if shape.get('myself'):
            mine = Peer('192.168.0.9', {'hosts': {'192.168.0.9': {'tcp_port': 50001}}}, 'env')
            mine.last_good = eng.fresh_real('my_last_good')
            pm.myselves = [mine]
        def ask(phase):
            result = pm.on_peers_subscribe(shape['tor'])
            hosts = sorted(t[1] for t in result)
            eng.prove(len(set(hosts)) == len(hosts), 'a peer is advertised twice', {'signature': 'duplicate'})
            per_bucket = {}
            onions = 0
            clear = 0
            for host in hosts:
                if mine is not None and host == mine.host:
                    eng.prove(mine.last_good > now - STALE, 'own identity advertised without recent verification',
                              {'signature': 'stale-self'})
                    clear += 1
                    continue
                lg, bad, public, bucket = info[host]
                eng.prove(public, 'a peer that is not publicly routable / not a valid host is advertised',
                          {'signature': 'non-public', 'host': host})
                eng.prove(z3_and([lg > now - STALE, z3_not(bad)]), 'a stale or bad peer is advertised',
                          {'signature': 'stale-or-bad', 'host': host})
                if bucket == 'onion':
                    onions += 1
                else:
                    clear += 1
                    per_bucket[bucket] = per_bucket.get(bucket, 0) + 1
            eng.prove(all(n <= 2 for n in per_bucket.values()), 'more than two peers of one address bucket advertised',
                      {'signature': 'bucket-overflow', 'buckets': per_bucket, 'phase': phase})
            cap = 50 if shape['tor'] else max(10, clear // 4)
            eng.prove(onions <= cap, 'too many onion peers advertised', {'signature': 'onion-cap', 'n': onions})
            return hosts, onions
        hosts, onions = ask('first')
        if shape.get('rehome'):
            # a later verification finds host-name peers at another address (what _verify_peer records in
            # peer.ip_addr); the next request must group them by where they are now
            for key, (new_ip, new_bucket) in shape['rehome'].items():
                host = POOL[key][0]
                for p in pm.peers:
                    if p.host == host:
                        p.ip_addr = new_ip
                lg, bad, public, _b = info[host]
                info[host] = (lg, bad, public, new_bucket)
            hosts, onions = ask('after re-verification at a new address')
        symx.observe('n', len(hosts))
        symx.observe('onions', onions)
    finally:
        pmod.time, pmod.random = saved
        w.close()


def _env(w):
    return w.make_env()


def k1_shapes(tier):
    out = []
    groups = [['g1', 'g2', 'g3', 'p1'], ['c1', 'n1', 'n2', 'lo'], ['a6', 'b6', 'c6', 'u6'], ['p2', 'p3', 'll', 'mc'],
              ['un', 'cg', 'doc', 'l6'], ['k6', 'bad', 'lh', 'dot'], ['g1', 'a6', 'n1', 'bad'],
              ['mc2', 'mc3', 'm6', 'm62'], ['bc', 'rs', 'g2', 'c6']]
    for n, g in enumerate(groups):
        out.append({'peers': g, 'onion': (0, 3, 12)[n % 3], 'tor': n % 2 == 0, 'myself': n % 3 == 0})
    out.append({'peers': ['g1', 'c1'], 'onion': 60, 'tor': True})
    # host-name peers re-verified at a new address between two requests
    out.append({'peers': ['g1', 'g2', 'n1', 'c1'], 'onion': 0, 'tor': False, 'rehome': {'n1': ('8.8.77.7', 'v4:8.8')}})
    out.append({'peers': ['n1', 'n2', 'a6', 'b6'], 'onion': 3, 'tor': True,
                'rehome': {'n1': ('2001:4860:4860:0:5::1', 'v6:2001:4860:4860:00'), 'n2': ('1.1.9.9', 'v4:1.1')}})
    out.append({'peers': ['g1', 'c1'], 'onion': 60, 'tor': False, 'myself': True})
    if tier == 'thorough':
        out += [{'peers': ['g1', 'g2', 'g3', 'n1', 'n2'], 'onion': 2, 'tor': False, 'myself': True},
                {'peers': ['a6', 'b6', 'c6', 'g1', 'p1'], 'onion': 11, 'tor': False},
                {'peers': ['g1', 'g2', 'c1', 'n1', 'a6', 'c6'], 'onion': 14, 'tor': False},
                {'peers': ['bad', 'lh', 'dot', 'cg', 'doc'], 'onion': 51, 'tor': True}]
    return out


PORT_FORMS = {
    # the other slot holds a symbolic int; this slot holds the named concrete JSON value
    'int': None,
    'str-neg': '-443', 'str-zero': '0', 'str-max': '65535', 'str-over': '65536', 'str-big': '99999999999999999999',
    'str-junk': '50001x', 'str-space': ' 50002 ', 'str-under': '5_0', 'true': True, 'false': False,
    'float': 50001.0, 'none': None, 'list': [50001], 'dict': {'tcp_port': 50001},
}


def k3(shape):
    from electrumx.lib.peer import Peer
    eng = engine()
    host = shape['host']
    tcp = eng.fresh_int('tcp_port')
    ssl = eng.fresh_int('ssl_port')
    form = shape['form']
    if form != 'int':
        if shape['slot'] == 'tcp':
            tcp = PORT_FORMS[form]
        else:
            ssl = PORT_FORMS[form]
    entry = {'tcp_port': tcp, 'ssl_port': ssl}
    if form == 'none' and shape['slot'] == 'tcp':
        del entry['tcp_port']
    features = {'hosts': {host: entry}}
    if shape.get('top'):
        # the same keys at the top level of the dictionary must not be taken for the host's ports
        features['tcp_port'] = eng.fresh_int('top_tcp')
        features['ssl_port'] = eng.fresh_int('top_ssl')
    peers = Peer.peers_from_features(features, 'src')
    eng.prove(len(peers) == 1, 'one announced host must give one peer', {'signature': 'peer-count'})
    n_present = 0
    for p in peers:
        for name in ('tcp_port', 'ssl_port'):
            port = getattr(p, name)
            if port is None:
                continue
            n_present += 1
            eng.prove(not isinstance(port, bool), f'{name} of a peer built from announced features is a JSON boolean, not a port',
                      {'signature': 'boolean-port', 'which': name, 'form': form})
            eng.prove(z3_and([port > 0, port < 65536]), f'{name} of a peer built from announced features is not a valid port',
                      {'signature': 'invalid-port', 'which': name, 'form': form})
        ser = p.serialize()
        hosts = ser['features'].get('hosts') if isinstance(ser.get('features'), dict) else None
        eng.prove(hosts is not None, 'serialised peer lost its hosts', {'signature': 'serialize'})
    symx.observe('ports_present', n_present)


def k3_shapes(tier):
    out = []
    hosts = ['peer.example.com', '8.8.8.8'] if tier == 'quick' else ['peer.example.com', '8.8.8.8', '2001:4860:4860::8888',
                                                                      'abcdefghijklmnop.onion']
    for host in hosts:
        out.append({'host': host, 'form': 'int', 'slot': 'both'})
        out.append({'host': host, 'form': 'int', 'slot': 'both', 'top': True})
    for form in PORT_FORMS:
        if form == 'int':
            continue
        for slot in ('tcp', 'ssl'):
            out.append({'host': hosts[0], 'form': form, 'slot': slot})
    return out


def EXTRA(prop, argv):
    return xhair.main(prop, argv, text='Peer.peers_from_features on JSON-typed feature dictionaries.', return_only=True)


KERNELS = [
    Kernel('K1', k1, k1_shapes,
           desc='peer list selection with symbolic verification times, bad flags, clock and shuffle',
           encodes=['electrumx/server/peers.py:PeerManager.on_peers_subscribe', '_get_recent_good_peers',
                    'electrumx/lib/peer.py:Peer.__init__', 'is_public', 'is_valid', 'is_tor', 'ip_address',
                    'bucket_for_external_interface', 'to_tuple', 'real_name'],
           bounds='4..6 clearnet peers per scenario taken from a 30-entry labelled pool (public IPv4 in the same and '
                  'different /16s, RFC1918, loopback, link-local, multicast (local and global-scope groups, IPv4 and IPv6), broadcast, reserved, unspecified, CGNAT, documentation, global '
                  'IPv6 in the same and different /56s, ULA, loopback/link-local IPv6, valid and invalid host names, '
                  'localhost) plus 0..60 onion peers; symbolic: each last_good and the clock (reals), each bad flag, '
                  'the shuffles (every permutation for <= 3 elements, every rotation above), own identity\'s '
                  'verification time; tor / non-tor requester; in two scenarios a second request after host-name '
                  'peers were re-verified at another address',
           outside='peer sets not enumerated; permutations other than rotations of more than 3 elements',
           assumptions=['time.time and random.shuffle replaced by symbolic stubs'],
           witnesses=1),
    Kernel('K3', k3, k3_shapes,
           desc='ports of a peer built from announced features, with the announced ports symbolic integers',
           encodes=['electrumx/lib/peer.py:Peer.peers_from_features', 'Peer.__init__', '_port', '_integer', 'tcp_port',
                    'ssl_port', 'serialize'],
           bounds='one announced host (host name, IPv4; thorough also IPv6 and onion); tcp_port and ssl_port unbounded '
                  'symbolic integers (|port| < 2**80 where the code takes a bit length), optionally the same keys at '
                  'the top level as two more symbolic integers; per shape one slot holds a concrete non-integer JSON '
                  'value instead (numeric strings incl. negative / zero / 65535 / 65536 / 20 digits / junk, booleans, '
                  'float, null / missing, list, dict)',
           outside='symbolic strings as ports (K2, CrossHair); several hosts in one dictionary',
           witnesses=2),
]
