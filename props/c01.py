"""C01 - confirmed UTXO set and balances equal the chain's true unspent outputs.
C02's chain kernel shares this scenario (see c02.py).

K3  bounded run from genesis: a symbolic chain (transaction hashes, script bytes, values, spend
    selectors, activation height all symbolic) is indexed by the real advance_block with a
    flush schedule taken from the shape (none / history-only / full after each block, also right
    after the last block), then flushed, and every read path is compared with an independent
    reference indexer; some shapes split the flat files into tiny physical files (two records
    each) so that reads and writes cross file boundaries.
K1  layout round trip with fully symbolic UTXO records (tx hash, index, hashX, tx number,
    value): real flush_utxo_db, spend_utxo, all_utxos, lookup_utxos.
"""
import itertools

from vlib import symx, chain
from vlib.runner import Kernel
from vlib.symx import engine, deep_eq, z3_and, z3_not, z3_or, SBytes


def k3(shape, *, history=False, utxos=True):
    eng = engine()
    sim = chain.Sim(reorg_limit=10, daemon_height=shape.get('daemon_height', 100))
    sim.collide = {frozenset(p) for p in shape.get('collide', [])}
    sim.world.small_files = shape.get('small_files', False)
    try:
        sim.open()
        for bi, (bspec, fl) in enumerate(zip(shape['blocks'], shape['flush'])):
            blk = sim.gen_block(bspec, f'b{bi}')
            sim.advance(blk)
            for step in fl:
                if step == 'h':
                    sim.flush(False)
                elif step == 'f':
                    sim.flush(True)
                elif step == 'r':
                    sim.open()                                   # clean restart (only directly after an f)
                elif step == 's':
                    chain.run(sim.db.open_for_serving())         # first catch-up: re-open for serving, carry on
        sim.flush(True)
        chain.check_index(sim, 'final', check_history=history, check_utxos=utxos, check_limits=history)
        if shape.get('reopen'):
            sim.open()
            chain.check_index(sim, 'reopened', check_history=history, check_utxos=utxos, check_fs=False)
    finally:
        sim.close()


def _blocks(tier):
    # block specs: cb = coinbase outputs, txs = [{'ins': n, 'outs': kinds}]; third item: pairs of
    # transactions whose compressed hash prefixes may collide
    b_cb_S = {'cb': 'S'}
    b_cb_AS = {'cb': 'AS'}
    b_spend1 = {'cb': 'A', 'txs': [{'ins': 1, 'outs': 'SA'}]}
    b_spend2 = {'cb': 'B', 'txs': [{'ins': 2, 'outs': 'S'}]}
    b_chain = {'cb': 'A', 'txs': [{'ins': 1, 'outs': 'AB'}, {'ins': 1, 'outs': 'S'}]}
    b_unsp = {'cb': 'RF', 'txs': [{'ins': 1, 'outs': 'OZE'}]}
    quick = [
        ([b_cb_AS, b_spend1], []),
        ([b_cb_S, b_spend2], []),
        ([{'cb': 'A'}, b_chain], []),
        ([{'cb': 'SA'}, b_unsp], []),
        ([{'cb': 'As'}, {'cb': 'E', 'txs': [{'ins': 1, 'outs': 'sA'}]}], []),
        # two flushed outputs with the same index whose hashes may share the 4-byte prefix
        ([{'cb': 'A'}, {'cb': 'B'}, {'cb': 'C', 'txs': [{'ins': 1, 'outs': 'S'}]}], [['b0t0', 'b1t0']]),
        ([b_cb_AS, b_spend1], [['b0t0', 'b1t1']]),
    ]
    if tier == 'quick':
        return quick
    # thorough-only chains: longer / denser, at most one symbolic script each (two or three make a single shape run
    # for more than ten minutes; measured)
    cbAB = {'cb': 'AB'}
    b_spend2c = {'cb': 'B', 'txs': [{'ins': 2, 'outs': 'C'}]}
    b_chainc = {'cb': 'A', 'txs': [{'ins': 1, 'outs': 'AB'}, {'ins': 1, 'outs': 'C'}]}
    more = [
        ([cbAB, b_chain], []),
        ([cbAB, b_spend1, b_spend2c], []),
        ([b_cb_S, b_chainc, {'cb': 'A', 'txs': [{'ins': 1, 'outs': 'BA'}]}], []),
        ([{'cb': 'CA'}, {'cb': 'S', 'txs': [{'ins': 1, 'outs': 'A'}]}, b_chainc], []),
        ([cbAB, {'cb': 'A', 'txs': [{'ins': 1, 'outs': 'S'}, {'ins': 1, 'outs': 'C'}]}], []),
        ([{'cb': 'AAA'}, {'cb': 'B', 'txs': [{'ins': 2, 'outs': 'SC'}]}], []),
        ([{'cb': 'AB'}, {'cb': 'BA'}, {'cb': 'C', 'txs': [{'ins': 2, 'outs': 'S'}]}],
         [['b0t0', 'b1t0'], ['b0t0', 'final_absent'], ['b1t0', 'final_absent']]),
        ([cbAB, b_chain], [['b0t0', 'b1t1'], ['b1t1', 'b1t2'], ['b0t0', 'b1t2']]),
    ]
    return quick + more


def k3_shapes(tier):
    out = []
    nquick = len(_blocks('quick'))
    for li, (blocks, collide) in enumerate(_blocks(tier)):
        n = len(blocks)
        scheds = list(itertools.product('nhf', repeat=n - 1))
        if n > 2:
            scheds = [s for s in scheds if s[-1] == 'f' or tier == 'thorough']
            if tier == 'quick':
                scheds = scheds[::2]
        if tier == 'quick' and collide and n == 2:
            scheds = [('f',)]
        if li >= nquick:
            # the larger thorough-only chains: two schedules each (sized to keep the tier within tens of minutes)
            scheds = [scheds[(li * 2) % len(scheds)], scheds[(li * 2 + 4) % len(scheds)]]
        for s in scheds:
            out.append({'blocks': blocks, 'flush': list(s) + ['n'], 'reopen': s[0] == 'h', 'collide': collide})
    # a history-only (or full) flush right after the LAST block, then the final full flush at the same height
    # (what on_caught_up does at the end of the initial sync)
    tails = [(['n', 'h'], True), (['f', 'h'], False), (['h', 'h'], True), (['n', 'f'], False)]
    lists = [b for b, c in _blocks(tier) if len(b) == 2 and not c][:2 if tier == 'quick' else 5]
    for blocks in lists:
        for fl, reopen in (tails[:3] if tier == 'quick' else tails):
            out.append({'blocks': blocks, 'flush': fl, 'reopen': reopen, 'collide': []})
    # the state is read back from disk in mid-run: a clean restart / the re-open for serving of the first catch-up
    # directly after a full flush, then more blocks touching the same script hashes
    b3r = [{'cb': 'A'}, {'cb': 'A', 'txs': [{'ins': 1, 'outs': 'AS'}]}, {'cb': 'A', 'txs': [{'ins': 1, 'outs': 'AB'}]}]
    for fl in ([['fr', 'n', 'n'], ['hfs', 'h', 'n']] if tier == 'quick' else
               [['fr', 'n', 'n'], ['hfs', 'h', 'n'], ['fs', 'fr', 'n'], ['n', 'fs', 'h'], ['fr', 'fr', 'h']]):
        out.append({'blocks': b3r, 'flush': fl, 'reopen': True, 'collide': []})
    # the flat files split into tiny physical files (two records each): reads and writes cross file boundaries
    b3 = [{'cb': 'A'}, {'cb': 'A', 'txs': [{'ins': 1, 'outs': 'AB'}, {'ins': 1, 'outs': 'S'}]}, {'cb': 'B', 'txs': [{'ins': 1, 'outs': 'C'}]}]
    for fl in ([['f', 'n', 'n'], ['f', 'h', 'n']] if tier == 'quick' else
               [['f', 'n', 'n'], ['f', 'h', 'n'], ['n', 'n', 'n'], ['h', 'f', 'n'], ['n', 'f', 'n']]):
        out.append({'blocks': b3, 'flush': fl, 'reopen': True, 'collide': [], 'small_files': True})
    return out


# -- ODB: forward indexing through the real block files ------------------------------------------

def odb(shape):
    '''Forward indexing through the real asynchronous shell with the REAL OnDiskBlock: the stub daemon's get_block
    writes the raw block file, the real prefetcher and chunked reader (chunk size scaled from 25 MB down to 61..150
    bytes, so blocks span several chunks and chunks end inside and between transactions) feed advance_block; at
    quiescence the index must equal the reference (the checks of C07's stories).'''
    from props import c07
    return c07.scenario(shape)


def odb_shapes(tier):
    cbA, cbB = {'cb': 'A'}, {'cb': 'B'}
    s3 = {'cb': 'C', 'txs': [{'ins': 1, 'outs': 'A'}, {'ins': 1, 'outs': 'B'}, {'ins': 1, 'outs': 'AC'}]}
    s2 = {'cb': 'B', 'txs': [{'ins': 2, 'outs': 'CA'}, {'ins': 1, 'outs': 'F'}]}
    base = {'real_odb': True, 'sessions': True, 'early': False, 'deviations': 0}
    sizes = (61, 150) if tier == 'quick' else (61, 90, 97, 150, 211, 400)
    out = [dict(base, chunk_size=cs, initial=[cbA, cbB, cbA, cbB, s3], script=[('block', s2), ('block', s3)]) for cs in sizes]
    # the first one also under one solver-chosen schedule deviation (prefetch / advance / flush interleavings)
    out[0] = dict(out[0], deviations=1)
    return out


# -- K1 ----------------------------------------------------------------------------------------

def k1(shape):
    '''n fully symbolic UTXO records flushed by the real flush_utxo_db, then read and spent.'''
    import electrumx.lib.util as util
    import electrumx.server.block_processor as bpmod
    from electrumx.server.db import FlushData
    eng = engine()
    n = shape['n']
    sim = chain.Sim(activation=0)
    try:
        sim.open()
        db, bp = sim.db, sim.bp
        recs = []
        for i in range(n):
            r = dict(h=eng.fresh_bytes(f'h{i}', 32), idx=eng.fresh_word(f'i{i}', 32),
                     hx=eng.fresh_bytes(f'x{i}', 11), num=eng.fresh_word(f'n{i}', 40),
                     val=eng.fresh_word(f'v{i}', 64))
            recs.append(r)
        if not sim.native:
            for a, b in itertools.combinations(recs, 2):
                # same tx number <=> same transaction hash; outpoints pairwise distinct
                eng.assume(deep_eq(a['num'], b['num']) == deep_eq(a['h'], b['h']))
                eng.assume(z3_not(z3_and([deep_eq(a['h'], b['h']), deep_eq(a['idx'], b['idx'])])))
        # the tx-number -> hash map the collision resolution relies on
        def fs_tx_hash(tx_num):
            for r in recs:
                if bool(tx_num == r['num']):
                    return r['h'], 0
            return None, 0
        db.fs_tx_hash = fs_tx_hash
        adds = {}
        for r in recs:
            key = r['h'] + util.pack_le_uint32(r['idx'])
            r['key'] = key
            r['cv'] = r['hx'] + util.pack_le_uint64(r['num'])[:5] + util.pack_le_uint64(r['val'])
            adds[key] = r['cv']
        state = bp.state.copy()
        state.height = 0
        db.flush_utxo_db(FlushData(state, [], [], [], adds, []))
        # (b) all_utxos for the script hash of record 0
        q = recs[0]['hx']
        got = chain.run(db.all_utxos(q))
        exp = [r for r in recs if bool(r['hx'] == q)]
        eng.prove(len(got) == len(exp), 'K1: all_utxos returns a wrong number of records',
                  {'signature': 'K1-all_utxos-count'})
        # match by (tx_num, tx_pos): every returned row is one expected record and vice versa
        terms = []
        for u in got:
            terms.append(z3_or([z3_and([deep_eq(u.tx_num, r['num']), deep_eq(u.tx_pos, r['idx']),
                                        deep_eq(u.tx_hash, r['h']), deep_eq(u.value, r['val'])]) for r in exp]))
        for r in exp:
            terms.append(z3_or([z3_and([deep_eq(u.tx_num, r['num']), deep_eq(u.tx_pos, r['idx'])]) for u in got]))
        eng.prove(z3_and(terms), 'K1: all_utxos returns wrong records', {'signature': 'K1-all_utxos'})
        # (c) lookup_utxos: present outpoints, and an absent one that may collide on prefix+index
        ah = eng.fresh_bytes('absent_h', 32)
        ai = eng.fresh_word('absent_i', 32)
        if not sim.native:
            for r in recs:
                eng.assume(z3_not(z3_and([deep_eq(ah, r['h']), deep_eq(ai, r['idx'])])))
                eng.assume(z3_not(deep_eq(ah, r['h'])))
        got = chain.run(db.lookup_utxos([(r['h'], r['idx']) for r in recs] + [(ah, ai)]))
        terms = [g is not None and z3_and([deep_eq(g[0], r['hx']), deep_eq(g[1], r['val'])])
                 for g, r in zip(got, recs)]
        terms.append(got[-1] is None)
        eng.prove(z3_and(terms), 'K1: lookup_utxos wrong', {'signature': 'K1-lookup_utxos'})
        # (a) spend record 0: exactly its cache value, exactly its two rows scheduled for deletion
        r0 = recs[0]
        cv = bp.spend_utxo(r0['h'], r0['idx'])
        eng.prove(deep_eq(cv, r0['cv']), 'K1: spend_utxo returns a wrong value', {'signature': 'K1-spend-value'})
        suffix = util.pack_le_uint32(r0['idx']) + util.pack_le_uint64(r0['num'])[:5]
        exp_del = [b'h' + r0['h'][:4] + suffix, b'u' + r0['hx'] + suffix]
        eng.prove(len(bp.db_deletes) == 2 and deep_eq(list(bp.db_deletes), exp_del),
                  'K1: spend_utxo schedules wrong rows for deletion', {'signature': 'K1-spend-deletes'})
        # (d) flushing the deletes removes exactly that record
        db.flush_utxo_db(FlushData(state, [], [], [], {}, bp.db_deletes))
        got = chain.run(db.lookup_utxos([(r['h'], r['idx']) for r in recs]))
        terms = [got[0] is None] + [g is not None and z3_and([deep_eq(g[0], r['hx']), deep_eq(g[1], r['val'])])
                                    for g, r in zip(got[1:], recs[1:])]
        eng.prove(z3_and(terms), 'K1: after flushing the spend the wrong records remain',
                  {'signature': 'K1-after-delete'})
        symx.observe('n', len(got))
    finally:
        sim.close()


# -- K2 ----------------------------------------------------------------------------------------

def k2(shape):
    '''One-block inductive step of advance_block from an arbitrary valid pre-state: up to two live
    outputs with every field symbolic (hash prefix, index u32, script hash 11 bytes, tx number,
    value), each either still in the UTXO cache or already flushed to the tables (by the real
    flush_utxo_db); symbolic height, counters and tip; the next block (coinbase + one transaction
    spending a solver-chosen subset of the live outputs) is applied by the real advance_block.
    The abstraction of the post-state (cache + table rows - pending deletes, observed through
    spend_utxo's own lookup path and the cache) must be exactly reference(pre, block).'''
    import electrumx.lib.util as util
    from electrumx.server.db import FlushData
    from electrumx.lib.tx import Tx, TxInput, TxOutput
    eng = engine()
    T = shape['tx_count']
    sim = chain.Sim(reorg_limit=10, daemon_height=0)
    sim.collide = {frozenset(('pre0', 'pre1'))}
    try:
        sim.open()
        db, bp = sim.db, sim.bp
        H = eng.fresh_int('height', 0, None)
        tip = eng.fresh_bytes('tip', 32)
        ucount = eng.fresh_int('utxo_count', len(shape['pre']), None)
        csize = eng.fresh_int('chain_size', 0, None)
        st = bp.state
        st.height, st.tx_count, st.tip, st.utxo_count, st.chain_size = H, T, tip, ucount, csize
        db.tx_counts = []
        sim.daemon._h = H + 1
        pre = []
        for i, where in enumerate(shape['pre']):
            h = sim.new_hash(f'pre{i}')
            r = dict(h=h, idx=eng.fresh_word(f'pre{i}_idx', 32), hx=eng.fresh_bytes(f'pre{i}_hx', 11),
                     num=eng.fresh_word(f'pre{i}_num', 40), val=eng.fresh_word(f'pre{i}_val', 64), where=where)
            if not sim.native:
                eng.assume(r['num'] < T)
            r['key'] = h + util.pack_le_uint32(r['idx'])
            r['cv'] = r['hx'] + util.pack_le_uint64(r['num'])[:5] + util.pack_le_uint64(r['val'])
            pre.append(r)
        if len(pre) == 2 and not sim.native:
            a, b = pre
            eng.assume(z3_not(deep_eq(a['num'], b['num'])))       # different transactions
        def fs_tx_hash(tx_num):
            for r in pre:
                if bool(tx_num == r['num']):
                    return r['h'], 0
            return None, 0
        db.fs_tx_hash = fs_tx_hash
        flushed = {r['key']: r['cv'] for r in pre if r['where'] == 'db'}
        if flushed:
            s0 = st.copy()
            s0.height = 0
            db.flush_utxo_db(FlushData(s0, [], [], [], flushed, []))
            db.state.height = -1
        for r in pre:
            if r['where'] == 'cache':
                bp.utxo_cache[r['key']] = r['cv']
        # the block: coinbase paying a symbolic script, one transaction spending a chosen subset
        subsets = [[0], [1], [0, 1], [1, 0], []][:(5 if len(pre) == 2 else 0)] or ([[0], []] if pre else [[]])
        spend = subsets[eng.choice('spend', len(subsets))]
        cb_hash, tx_hash = sim.new_hash('cb'), sim.new_hash('tx')
        s_cb = eng.fresh_bytes('cb_script', 3) if shape.get('sym_cb') else sim.wrap(chain.SCRIPTS['B'])
        s_out = eng.fresh_bytes('out_script', 3)
        v_cb, v_out = eng.fresh_word('cb_val', 64), eng.fresh_word('out_val', 64)
        cb = Tx(1, [TxInput(sim.wrap(chain.ZERO32), chain.MINUS_1, b'', 0)], [TxOutput(v_cb, s_cb)], 0)
        tx = Tx(1, [TxInput(pre[i]['h'], pre[i]['idx'], b'', 0) for i in spend], [TxOutput(v_out, s_out), TxOutput(v_cb, sim.wrap(chain.SCRIPTS['A']))], 0)
        header = sim.wrap(b'\x01\x00\x00\x00') + tip + bytes(44)
        blk = chain.StubBlock(H + 1, header, 777, [(cb, cb_hash), (tx, tx_hash)])
        activation = sim.activation
        bp.advance_block(blk)
        # reference
        created = []
        for (t, th, num) in ((cb, cb_hash, T), (tx, tx_hash, T + 1)):
            for j, o in enumerate(t.outputs):
                if not chain.ref_unspendable(o.pk_script, H + 1, activation):
                    created.append(dict(key=th + util.pack_le_uint32(j), hx=chain.ref_hashX(o.pk_script), num=num, val=o.value))
        eng.prove(z3_and([deep_eq(st.height, H + 1), st.tx_count == T + 2, deep_eq(st.chain_size, csize + 777),
                          deep_eq(st.utxo_count, ucount - len(spend) + len(created)),
                          deep_eq(st.tip, sim.coin.header_hash(header))]),
                  'K2: counters / tip / height after advance_block wrong', {'signature': 'K2-state'})
        # undo information: the spent cache values in spend order
        eng.prove(len(bp.undo_infos) == 1 and deep_eq(list(bp.undo_infos[0][0]), [pre[i]['cv'] for i in spend]) is not False
                  and deep_eq(list(bp.undo_infos[0][0]), [pre[i]['cv'] for i in spend]),
                  'K2: undo information is not the spent values in spend order', {'signature': 'K2-undo'})
        # history: one entry per (transaction, distinct script hash touched)
        exp_hist = {}
        for num, hxs in ((T, [c['hx'] for c in created if c['num'] == T]),
                         (T + 1, [pre[i]['hx'] for i in spend] + [c['hx'] for c in created if c['num'] == T + 1])):
            seen = []
            for hx in hxs:
                if not any(bool(hx == s) for s in seen):
                    seen.append(hx)
            for hx in seen:
                exp_hist.setdefault(id(hx), (hx, []))[1].append(num)
        classes = []
        for hx, nums in exp_hist.values():
            for c in classes:
                if bool(c[0] == hx):
                    c[1].extend(nums)
                    break
            else:
                classes.append([hx, list(nums)])
        unfl = db.history.unflushed
        eng.prove(len(unfl) == len(classes), 'K2: unflushed history has a wrong number of script hashes',
                  {'signature': 'K2-history-keys'})
        for hx, nums in classes:
            got = unfl.get(hx)
            expb = b''.join(util.pack_le_uint64(n)[:5] for n in sorted(nums))
            eng.prove(got is not None and deep_eq(chain._bytes(got), expb) is not False and deep_eq(chain._bytes(got), expb),
                      'K2: unflushed history entries wrong', {'signature': 'K2-history'})
        eng.prove(all(any(bool(hx == t) for t in bp.touched) for hx, _n in classes), 'K2: touched set misses a script hash',
                  {'signature': 'K2-touched'})
        # abstraction of the post-state: every expected live output can be spent exactly once with its value,
        # every spent one cannot
        deletes_after_block = list(bp.db_deletes)
        cache_after_block = list(bp.utxo_cache)
        live = [r for i, r in enumerate(pre) if i not in spend] + created
        for r in live:
            k = r['key']
            cv = r.get('cv') or (r['hx'] + util.pack_le_uint64(r['num'])[:5] + util.pack_le_uint64(r['val']))
            got = bp.spend_utxo(k[:32], util.unpack_le_uint32(k[32:])[0] if not isinstance(k, bytes) else int.from_bytes(k[32:], 'little'))
            eng.prove(deep_eq(got, cv), 'K2: a live output is missing or has a wrong value after the block',
                      {'signature': 'K2-live'})
        for i in spend:
            r = pre[i]
            suffix = util.pack_le_uint32(r['idx']) + util.pack_le_uint64(r['num'])[:5]
            if r['where'] == 'cache':
                # gone from the cache (a second spend is not required to fail: the indexer assumes a valid
                # chain and resolves a lone prefix candidate without verification)
                eng.prove(all(bool(k != r['key']) for k in cache_after_block), 'K2: a spent output is still cached',
                          {'signature': 'K2-still-cached'})
            else:
                # still in the tables until the next flush: exactly its two rows are scheduled for deletion
                hk, uk = b'h' + r['h'][:4] + suffix, b'u' + r['hx'] + suffix
                eng.prove(z3_and([z3_or([deep_eq(d, hk) for d in deletes_after_block]),
                                  z3_or([deep_eq(d, uk) for d in deletes_after_block])]),
                          'K2: an output spent from the tables is not scheduled for deletion', {'signature': 'K2-deletes'})
        eng.prove(len(deletes_after_block) == 2 * sum(1 for i in spend if pre[i]['where'] == 'db'),
                  'K2: wrong number of rows scheduled for deletion', {'signature': 'K2-deletes-count'})
        symx.observe('spend', list(spend))
    finally:
        sim.close()


def k2_shapes(tier):
    Ts = [2, 256] if tier == 'quick' else [2, 255, 65536, (1 << 32) - 1, (1 << 40) - 4]
    out = []
    for T in Ts:
        for pre in (['cache', 'db'], ['db', 'db'], ['cache', 'cache']):
            if tier == 'quick' and (T != 2 or pre != ['cache', 'db']) and (T, pre) != (256, ['db', 'db']):
                continue
            out.append({'tx_count': T, 'pre': pre})
    if tier == 'thorough':
        out.append({'tx_count': 2, 'pre': ['cache', 'db'], 'sym_cb': True})
    return out


KERNELS = [
    Kernel('ODB', odb, odb_shapes,
           desc='forward indexing through the real OnDiskBlock (block files, prefetcher, chunked reader) with blocks '
                'spanning several read chunks',
           encodes=['electrumx/server/block_processor.py:OnDiskBlock.prefetch_many', 'streamed_block', 'iter_txs', '_read',
                    '__enter__', 'BlockProcessor.advance_blocks', 'advance_block', 'fetch_and_process_blocks',
                    'electrumx/lib/tx.py:Deserializer.read_tx_and_hash'],
           bounds='a 5-block start and two further blocks of 3..4 really serialised transactions; read chunk scaled from '
                  '25 MB down to 61 and 150 (quick) / 61, 90, 97, 150, 211, 400 (thorough) bytes; content concrete; the first '
                  'shape under one solver-chosen schedule deviation, the others FIFO (concrete companions)',
           outside='symbolic content (K3), other chunk sizes (C13-K3 proves the reader for every chunk size)',
           assumptions=['as C07 (daemon, sleeps, worker threads are stubs)'], witnesses=1),
    Kernel('K3', k3, k3_shapes,
           desc='symbolic chain from genesis through advance_block / flush_dbs, UTXO read paths vs reference',
           encodes=['electrumx/server/block_processor.py:BlockProcessor.advance_block', 'spend_utxo', 'flush',
                    'flush_data', 'electrumx/server/db.py:DB.flush_dbs', 'flush_fs', 'flush_utxo_db',
                    'flush_undo_infos', 'write_utxo_state', 'read_utxo_state', 'all_utxos', 'lookup_utxos',
                    'fs_tx_hash', 'fs_tx_hashes_at_blockheight', 'read_headers', 'fs_block_hashes',
                    'electrumx/server/history.py:History.add_unflushed', 'flush',
                    'electrumx/lib/script.py:is_unspendable_legacy', 'is_unspendable_genesis',
                    'electrumx/lib/coins.py:Coin.hashX_from_script', 'header_hash', 'header_prevhash'],
           bounds='2 blocks (quick) / up to 3 (thorough); coinbase + <= 2 transactions per block, <= 2 inputs, '
                  '<= 3 outputs; symbolic: all transaction hashes (32 bytes, pairwise distinct, prefixes free), '
                  'values (64 bit, <= 21e14), scripts marked S/s (3 / 1 symbolic bytes; others concrete incl. '
                  'OP_RETURN, OP_FALSE OP_RETURN, empty), spend selectors (every valid spend graph), activation '
                  'height (any integer); flush schedule enumerated (none / history-only / full after each block, incl. '
                  'right after the last one; clean restarts and re-opens for serving in mid-run); 2 (quick) / 5 (thorough) shapes with the flat files split into physical '
                  'files of two records each',
           outside='longer chains, more transactions per block, prefetch batching (not part of the index state), '
                   'RocksDB; flat files of the real physical size (16 MB / 2 MB) - the split is exercised at a scaled size',
           assumptions=['LevelDB modelled by MemStore (sorted iteration, atomic batches)',
                        'meta files modelled by MemFS'],
           witnesses=1, prescribe=('sha256',), split_depth=14),
    Kernel('K2', k2, k2_shapes,
           desc='one-block inductive step of advance_block from an arbitrary valid pre-state',
           encodes=['electrumx/server/block_processor.py:BlockProcessor.advance_block', 'spend_utxo',
                    'electrumx/server/history.py:History.add_unflushed', 'electrumx/server/db.py:DB.flush_utxo_db',
                    'min_undo_height'],
           bounds='pre-state: 2 live outputs, each in the cache or flushed, all fields symbolic (hash prefix, index u32, '
                  'script hash 11 B, tx number 40 bit below the count, value u64; their prefixes may collide), height, '
                  'utxo_count, chain_size any integers, tip 32 symbolic bytes, tx_count at byte-boundary values; block: '
                  'coinbase + one transaction spending any ordered subset, symbolic scripts and values, activation '
                  'height any integer',
           outside='larger footprints; the flush after the step (K1 / K3); tx_count values other than those listed',
           assumptions=['the tx-number -> hash relation used for collision resolution is the relation of the live records'],
           witnesses=1, prescribe=('sha256',), split_depth=10),
    Kernel('K1', k1, lambda tier: [{'n': 2}] + ([{'n': 3}] if tier == 'thorough' else []),
           desc='UTXO table layout round trip with every key/value byte symbolic',
           encodes=['electrumx/server/db.py:DB.flush_utxo_db', 'all_utxos', 'lookup_utxos',
                    'electrumx/server/block_processor.py:BlockProcessor.spend_utxo'],
           bounds='2 records (quick) / 3 (thorough), all fields symbolic: tx hash 32 B, index u32, hashX 11 B, '
                  'tx number 40 bit, value u64; hashes equal iff tx numbers equal; outpoints distinct',
           outside='more than 3 mutually colliding records; fs_tx_hash is replaced by the relation '
                   'tx number -> hash of the records (its own layout is checked in K3 / C02)',
           witnesses=1),
]
