"""C20 - notifications only at agreed heights, and nothing dropped.

Real electrumx.server.controller.Notifications (start / on_mempool / on_block / _maybe_notify)
run on z3 Int heights.  The call sequence is symbolic: every call's kind is a symbolic bool and
its height an unbounded integer; call i hands over the singleton {i}.

Obligations (observable through the notify callback only):
 N1  a notification for height h is issued only if on_mempool(., h) and (on_block(., h) or
     start(h)) have already been received;
 N2  when a mempool report arrives at the current block height (= the height of the latest block
     report, or of start-up) every item handed over so far at a height <= it is in some
     notification issued so far (block reports, by design, wait for the next mempool report);
 N3  after any call sequence, one further *empty* report from each source at a height H (any
     integer, both orders) leaves every item that was handed over at a height <= H inside some
     notification issued so far.  (An item handed over at a height above the current one is
     deferred, not dropped: with H >= every height this is "nothing is ever discarded".)
"""
from vlib import symx
from vlib.runner import Kernel
from vlib.symx import engine, z3_or, z3_and, z3_not
from vlib.world import run_coro


def _run(coro):
    if symx.native():
        import asyncio
        return asyncio.new_event_loop().run_until_complete(coro)
    return run_coro(coro)


def scenario(shape):
    from electrumx.server.controller import Notifications
    eng = engine()
    K = shape['K']
    fixed = shape['kinds']           # first kinds fixed by the shape (parallelism); rest symbolic
    close_order = shape['close']     # 'bm' or 'mb'
    n = Notifications()
    notes = []

    async def notify(height, touched):
        notes.append((height, set(touched)))

    start = eng.fresh_int('start')
    _run(n.start(start, notify))
    mp_seen, bp_seen = [], [start]
    heights = []
    calls = []
    for i in range(K):
        is_mp = fixed[i] if i < len(fixed) else bool(eng.fresh_bool(f'mp{i}'))
        h = eng.fresh_int(f'h{i}')
        heights.append(h)
        before = len(notes)
        if is_mp:
            mp_seen.append(h)
            _run(n.on_mempool({i}, h))
        else:
            bp_seen.append(h)
            _run(n.on_block({i}, h))
        calls.append('mp' if is_mp else 'bp')
        if is_mp:
            _n2(eng, notes, heights, h, bp_seen[-1], i, calls)
        for nh, _t in notes[before:]:
            eng.prove(z3_and([z3_or([nh == x for x in mp_seen]), z3_or([nh == x for x in bp_seen])]),
                      'N1: notification at a height not reported by both sources',
                      {'signature': 'N1', 'call': i})
    # closing: one empty report from each source at height H
    H = eng.fresh_int('H')
    for who in close_order:
        before = len(notes)
        if who == 'b':
            bp_seen.append(H)
            _run(n.on_block(set(), H))
        else:
            mp_seen.append(H)
            _run(n.on_mempool(set(), H))
        for nh, _t in notes[before:]:
            eng.prove(z3_and([z3_or([nh == x for x in mp_seen]), z3_or([nh == x for x in bp_seen])]),
                      'N1: notification at a height not reported by both sources',
                      {'signature': 'N1', 'call': 'closing'})
    delivered = set()
    for _nh, t in notes:
        delivered |= t
    eng.note('calls=' + ','.join(calls) + ' close=' + close_order)
    symx.observe('notified_items', sorted(delivered))
    symx.observe('n_notifications', len(notes))
    for i in range(K):
        if i in delivered:
            continue
        eng.prove(z3_not(heights[i] <= H),
                  'N3: item handed over at a height <= H is in no notification after both sources '
                  'reported at H',
                  {'signature': 'N3-lost-item', 'item': i, 'calls': calls, 'close': close_order})


def _n2(eng, notes, heights, M, B, i, calls):
    '''N2: a mempool report at the current block height (the height of the latest block report,
    or of start-up) is the moment both sources have reported there: every item handed over so
    far at a height <= that height must be in some notification now.'''
    delivered = set()
    for _nh, t in notes:
        delivered |= t
    pending = [j for j in range(len(heights)) if j not in delivered]
    if not pending:
        return
    eng.prove(z3_or([z3_not(M == B)] + [z3_and([z3_not(heights[j] <= B) for j in pending])]),
              'N2: both sources have reported at the current height but an item handed over at or below it '
              'is in no notification', {'signature': 'N2-withheld', 'call': i, 'calls': list(calls)})


def shapes(tier):
    kmax = 4 if tier == 'quick' else 6
    out = []
    for K in range(0, kmax + 1):
        nfix = min(K, 0 if K <= 3 else (2 if K <= 4 else 3))
        for bits in range(1 << nfix):
            kinds = [bool(bits >> j & 1) for j in range(nfix)]
            for close in ('bm', 'mb'):
                out.append({'K': K, 'kinds': kinds, 'close': close})
    return out


KERNELS = [
    Kernel('N', scenario, shapes,
           desc='call sequences of Notifications with symbolic kinds and unbounded integer heights',
           encodes=['electrumx/server/controller.py:Notifications.start/on_mempool/on_block/_maybe_notify'],
           bounds='K <= 4 calls (quick) / K <= 6 (thorough) before the closing pair; heights, start '
                  'height and closing height range over all integers (paths partition them by order type)',
           outside='longer call sequences; touched sets other than singletons (set contents are only '
                   'moved and merged by the code)',
           witnesses=1),
]
