"""C07 - subscribers converge on the true status and tip: no change is ever lost.
(C10 runs the same stories with queries, see c10.py.)

The real components are wired as Controller.serve wires them (vlib/fullsim.py) and driven by the
gate scheduler: block arrival, reorganisations (natural and forced), mempool arrivals / evictions
/ confirmations and client subscribe / unsubscribe are scripted events; the interleaving of
daemon replies, worker-thread jobs (start and result delivery are separate steps), timers and
early events is explored with a bounded number of deviations from FIFO (solver-enumerated).
At quiescence: the last status every client holds for every script hash it subscribed to (from
the subscribe reply or a later notification) equals the protocol status of that script hash on
the daemon's chain and mempool; the last header it holds is the tip; no header notification was
sent for a height the database did not yet have; no task died; the index equals the reference.
"""
from vlib import symx, chain
from vlib.runner import Kernel
from vlib.symx import engine


def final_checks(st, label='quiescent'):
    from vlib import fullsim
    eng, fs, sim = st.eng, st.fs, st.sim
    fs.check_tasks()
    sim.chain = list(st.main)
    db = sim.db
    eng.prove(db.state.height == len(st.main) - 1, f'{label}: the index is not at the daemon\'s height',
              {'signature': 'not-caught-up', 'height': db.state.height})
    for r in st.requests:
        eng.prove(r['done'], f'{label}: a client request never completed', {'signature': 'request-hangs',
                                                                          'request': r['label']})
    for ci, c in enumerate(fs.clients):
        for hashX, alias in c.s.hashX_subs.items():
            exp, mp_ok = fullsim.ref_status(sim, fs, st.main, hashX)
            eng.prove(mp_ok, f'{label}: mempool view of a subscribed script hash differs from the daemon\'s mempool',
                      {'signature': 'mempool-view'})
            held = c.status.get(alias, 'NEVER-TOLD')
            eng.prove(held == exp, f'{label}: a subscriber holds a stale status',
                      {'signature': 'stale-status', 'client': ci, 'held': held, 'expected': exp})
        if c.s.subscribe_headers:
            tip = st.main[-1]
            eng.prove(c.header == {'hex': tip.header.hex(), 'height': len(st.main) - 1},
                      f'{label}: a header subscriber does not hold the tip', {'signature': 'stale-tip', 'client': ci})
        for method, args, dbh in c.sent:
            if method == 'blockchain.headers.subscribe':
                eng.prove(args[0]['height'] <= dbh, f'{label}: header notification for a height not yet in the database',
                          {'signature': 'early-height', 'height': args[0]['height'], 'db': dbh})
    symx.observe('height', db.state.height)
    symx.observe('notifications', [len(c.sent) for c in fs.clients])


def scenario(shape):
    from vlib import story
    st = story.Story(shape)
    try:
        st.run()
        final_checks(st)
        if shape.get('check_index', True):
            st.fs.sched.deviations = 0
            # the index itself (C03 through the full asynchronous system); reads go through gates
            st.sim.chain = list(st.main)
            import electrumx.server.db as dbmod
            chain.patch_sync()
            if symx.native():
                async def inline(f, *a):
                    return f(*a)
                dbmod.run_in_thread = inline
            chain.check_index(st.sim, 'index', check_fs=False)
    finally:
        st.fs.close()
        st.sim.close()


cbA, cbB, cbC = {'cb': 'A'}, {'cb': 'B'}, {'cb': 'C'}
payA = {'cb': 'C', 'txs': [{'ins': 1, 'outs': 'A'}]}
payAB = {'cb': 'C', 'txs': [{'ins': 1, 'outs': 'AB'}]}
INITIAL = [cbA, cbB, {'cb': 'C', 'txs': [{'ins': 1, 'outs': 'AC'}]}, cbA]


def shapes(tier):
    d1 = 1
    out = [
        # subscribe, then blocks that touch / do not touch the subscription
        {'initial': INITIAL, 'deviations': d1, 'script': [('sub', 0, 'A'), ('hsub', 0), ('block', payA), ('block', cbB)]},
        # mempool arrival, confirmation in a block
        {'initial': INITIAL, 'deviations': d1,
         'script': [('sub', 0, 'A'), ('mp_add', 'm1', 1, 'A'), ('block', cbB, ['m1'])]},
        # subscription racing a block that touches it
        {'initial': INITIAL, 'deviations': d1, 'script': [('block', payA), ('sub', 0, 'A'), ('block', payAB)]},
        # natural reorg
        {'initial': INITIAL, 'deviations': d1,
         'script': [('sub', 0, 'A'), ('hsub', 0), ('block', payA), ('reorg', 1, [cbB, payAB])]},
        # forced reorg ending at the same height
        {'initial': INITIAL, 'deviations': d1, 'script': [('sub', 0, 'A'), ('block', payA), ('force_reorg', 1)]},
        # eviction
        {'initial': INITIAL, 'deviations': d1,
         'script': [('sub', 0, 'A'), ('mp_add', 'm1', 1, 'AB'), ('mp_evict', 'm1'), ('block', cbC)]},
    ]
    # a block that touches no script hash at all (its only output is unspendable), then mempool traffic
    out.append({'initial': INITIAL, 'deviations': d1,
                'script': [('sub', 0, 'A'), ('hsub', 0), ('block', {'cb': 'F'}), ('mp_add', 'm1', 1, 'A')]})
    out.append({'initial': INITIAL, 'deviations': 0,
                'script': [('hsub', 0), ('block', {'cb': 'F'}), ('block', {'cb': 'FF'}), ('sub', 0, 'B')]})
    # a subscription placed while the block that touches it is being processed
    out.append({'initial': INITIAL, 'deviations': d1,
                'script': [(('when', 'bp:advance_block', 1), ('sub', 0, 'A')), ('block', payA), ('block', cbB)]})
    # a reorg un-confirms the parent of a mempool transaction: the child's status flips to
    # "has unconfirmed inputs" although nothing touches its script hash
    # (the parent touches only script A, the subscriber watches B, which only the child pays)
    out.append({'initial': [cbA, cbA, cbA, cbA], 'deviations': d1,
                'script': [('sub', 0, 'B'), ('mp_add', 'm1', 1, 'A'), ('block', cbC, ['m1']),
                           ('mp_add', 'm2', 1, 'B', ['m1']), ('reorg', 1, [cbC, cbC])]})
    # a block (touching neither the subscription nor the mempool) is found and polled while a mempool refresh that
    # picked up a new transaction for the subscription is still in flight (raw transactions just delivered)
    out.append({'initial': INITIAL, 'deviations': d1, 'early': False,
                'script': [('sub', 0, 'A'), (('when', 'daemon:getrawtransactions', 1), ('block', cbB)),
                           (('when', 'daemon:getrawtransactions', 1), ('poll',)), ('mp_add', 'm1', 1, 'A')]})
    # a subscribed script loses its whole history: its only (mempool) transaction is evicted / the block with its only
    # confirmed transaction is replaced - the status must go back to null
    out.append({'initial': [cbA, cbA, cbA, cbA], 'deviations': d1,
                'script': [('sub', 0, 'B'), ('mp_add', 'm1', 1, 'B'), ('mp_evict', 'm1')]})
    out.append({'initial': [cbA, cbA, cbA, cbA], 'deviations': d1,
                'script': [('sub', 0, 'B'), ('block', cbB), ('reorg', 1, [cbC, cbC])]})
    # a mempool transaction for the script arrives (and may be refreshed and notified) while the subscription's
    # history read is in flight
    out.append({'initial': INITIAL, 'deviations': d1, 'early': False,
                'script': [(('when', 'db:read_history', 1), ('mp_add', 'm1', 1, 'A')), ('sub', 0, 'A')]})
    if tier == 'thorough':
        for s in list(out):
            out.append(dict(s, deviations=2, window=10))
        out += [
            {'initial': INITIAL, 'deviations': 2, 'window': 14, 'clients': 2,
             'script': [('sub', 0, 'A'), ('sub', 1, 'B'), ('mp_add', 'm1', 1, 'B'), ('mp_add', 'm2', 1, 'A', ['m1']),
                        ('block', cbC, ['m1']), ('block', cbC, ['m2'])]},
            {'initial': INITIAL, 'deviations': 2, 'window': 14,
             'script': [('sub', 0, 'A'), ('block', payA), ('block', payAB), ('reorg', 2, [cbB, cbC, payA])]},
            {'initial': INITIAL, 'deviations': 2, 'window': 14,
             'script': [('sub', 0, 'A'), ('mp_add', 'm1', 1, 'A'), ('block', payA, ['m1']), ('reorg', 1, [cbB, cbC])]},
        ]
    return out


KERNELS = [
    Kernel('STORY', scenario, shapes,
           desc='full system under the gate scheduler: subscribers converge',
           encodes=['electrumx/server/controller.py:Notifications.start', 'on_block', 'on_mempool', '_maybe_notify',
                    'electrumx/server/session.py:SessionManager._notify_sessions', '_refresh_hsub_results',
                    '_handle_chain_reorgs', 'limited_history', 'ElectrumX.notify', '_notify_inner', 'address_status',
                    'hashX_subscribe', 'subscription_address_status', 'headers_subscribe',
                    'electrumx/server/block_processor.py:BlockProcessor.fetch_and_process_blocks', 'on_caught_up',
                    'advance_blocks', 'reorg_chain', 'electrumx/server/mempool.py:MemPool._refresh_hashes',
                    '_process_mempool'],
           bounds='14 (quick) / 31 (thorough) scripted stories of 3..6 external events on a 4-block start; chain content '
                  'concrete; interleaving: FIFO plus 1 (quick) / 2 within a 10..14-step window (thorough) deviations, '
                  'each one of: postpone a pending gate (daemon reply, thread job start, thread result delivery, block '
                  'fetch) for one full round of timers (poll + mempool refresh), fire a timer early, inject the next scripted event early',
           outside='more deviations, longer stories, bytecode-level preemption inside a worker job, the transport '
                   '(ordering of a reply against notifications on the wire), costs / throttling',
           assumptions=['daemon, block prefetch, worker threads, sleeps, the mempool transaction parser and the '
                        'session transport are stubs (vlib/fullsim.py)',
                        'LevelDB modelled by MemStore, meta files by MemFS (symbolic mode)'],
           witnesses=1, split_depth=1),
]
