"""C16 - malformed client requests are refused cleanly and change nothing (CrossHair, see
props/c16_targets.py and vlib/xhair.py)."""
from vlib import xhair

TEXT = ('Every entry of ElectrumX.set_request_handlers (both protocol tables) and every argument validator is run '
        'with JSON-typed symbolic arguments against a real session / manager / populated real DB.')


def CUSTOM_MAIN(prop, argv):
    return xhair.main(prop, argv, text=TEXT)
