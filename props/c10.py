"""C10 - answers served to clients are never stale once the server is quiescent.

The stories of C07 with client QUERIES (history, balance, unspent list, mempool list,
id-from-position) as additional events that may be placed at any point - in particular inside a
reorganisation window (triggered right after backup_block) or injected early by the scheduler -
and then repeated at quiescence: the quiescent answers must equal the reference whatever was
asked and cached before.
"""
from vlib import symx, chain
from vlib.runner import Kernel
from vlib.symx import engine
from props import c07


def ref_answers(st, cls):
    '''Reference answers for a script-hash class on the daemon's chain and mempool.'''
    from electrumx.lib.hash import hash_to_hex_str
    sim, fs = st.sim, st.fs
    q = chain.ref_hashX(chain.SCRIPTS[cls])
    conf = [{'tx_hash': hash_to_hex_str(h), 'height': ht} for h, ht in chain.expected_history(st.main, q)]
    live_mp = {bytes(t.hash) for t in fs.daemon.mempool}
    mp = []
    for t in fs.daemon.mempool:
        touches = any(o.hashX == q for o in t.ins) or any(o.spendable and o.hashX == q for o in t.outs)
        if touches:
            fee = max(0, sum(o.value for o in t.ins) - sum(o.value for o in t.outs))
            mp.append({'tx_hash': hash_to_hex_str(t.hash), 'height': -int(any(bytes(o.txhash) in live_mp for o in t.ins)),
                       'fee': fee})
    live = [o for o in chain.live_outputs(st.main) if o.hashX == q]
    spent_by_mp = {id(o) for t in fs.daemon.mempool for o in t.ins}
    pos = {}
    n = 0
    for b in st.main:
        for tx in b.txs:
            for o in tx.outs:
                pos[id(o)] = (b.height, n)
            n += 1
    unspent = [{'tx_hash': hash_to_hex_str(o.txhash), 'tx_pos': o.idx, 'height': pos[id(o)][0], 'value': o.value}
               for o in sorted(live, key=lambda o: (pos[id(o)][1], o.idx)) if id(o) not in spent_by_mp]
    unspent_mp = [{'tx_hash': hash_to_hex_str(o.txhash), 'tx_pos': o.idx, 'height': 0, 'value': o.value}
                  for t in fs.daemon.mempool for o in t.outs if o.spendable and o.hashX == q and id(o) not in spent_by_mp]
    confirmed = sum(o.value for o in live)
    unconfirmed = sum(o.value for t in fs.daemon.mempool for o in t.outs if o.spendable and o.hashX == q) - \
        sum(o.value for t in fs.daemon.mempool for o in t.ins if o.hashX == q)
    return {'history': (conf, mp), 'balance': {'confirmed': confirmed, 'unconfirmed': unconfirmed},
            'listunspent': (unspent, unspent_mp), 'mempool': mp}


def _key(d):
    return (d['tx_hash'], d.get('tx_pos', 0))


def scenario(shape):
    from vlib import story
    from electrumx.lib.hash import hash_to_hex_str
    st = story.Story(shape)
    eng = st.eng
    try:
        st.run()
        c07.final_checks(st)
        fs = st.fs
        fs.sched.deviations = 0
        c = fs.clients[0]
        for cls in shape.get('classes', 'AB'):
            exp = ref_answers(st, cls)
            outs = {k: fs.spawn(st._query(c, k, cls), f'final {k} {cls}') for k in ('history', 'balance', 'listunspent', 'mempool')}
            fs.quiesce(1)
            for k, r in outs.items():
                eng.prove(r['done'] and r['error'] is None, f'quiescent query {k} failed',
                          {'signature': f'query-failed:{k}', 'error': repr(r['error'])})
                if not r['done'] or r['error'] is not None:
                    continue
                got = r['result']
                if k == 'history':
                    conf, mp = exp['history']
                    ok = got[:len(conf)] == conf and sorted(got[len(conf):], key=_key) == sorted(mp, key=_key)
                elif k == 'balance':
                    ok = got == exp['balance']
                elif k == 'listunspent':
                    u, ump = exp['listunspent']
                    ok = got[:len(u)] == u and sorted(got[len(u):], key=_key) == sorted(ump, key=_key)
                else:
                    ok = sorted(got, key=_key) == sorted(exp['mempool'], key=_key)
                eng.prove(ok, f'quiescent answer to {k} differs from the current chain and mempool',
                          {'signature': f'stale-answer:{k}', 'class': cls})
        # by-height queries for every block
        for b in st.main:
            # a proof request first (it works on the cached per-block hash list), then every position and the
            # first position past the end, which must be refused
            r = fs.spawn(st._query(c, 'id_from_pos_merkle', (b.height, 0)), 'final id_from_pos_merkle')
            fs.quiesce(1)
            eng.prove(r['done'] and r['error'] is None and r['result']['tx_hash'] == hash_to_hex_str(b.txs[0].hash),
                      'quiescent id-from-position (with proof) differs from the current chain',
                      {'signature': 'stale-answer:id_from_pos_merkle', 'height': b.height})
            for pos, tx in enumerate(b.txs):
                r = fs.spawn(st._query(c, 'id_from_pos', (b.height, pos)), 'final id_from_pos')
                fs.quiesce(1)
                eng.prove(r['done'] and r['error'] is None and r['result'] == hash_to_hex_str(tx.hash),
                          'quiescent id-from-position differs from the current chain',
                          {'signature': 'stale-answer:id_from_pos', 'height': b.height, 'pos': pos})
            r = fs.spawn(st._query(c, 'id_from_pos', (b.height, len(b.txs))), 'final id_from_pos past the end')
            fs.quiesce(1)
            from aiorpcx import RPCError
            eng.prove(r['done'] and isinstance(r['error'], RPCError),
                      'quiescent id-from-position answers for a position past the end of the block',
                      {'signature': 'stale-answer:id_from_pos-past-end', 'height': b.height, 'result': repr(r['result'])})
        if shape.get('trace'):
            eng.note('trace: ' + ' | '.join(fs.sched.trace))
            import sys as _s
            if any(t.startswith(shape['trace']) for t in fs.sched.trace if isinstance(shape['trace'], str)):
                print('TRACE ' + ' | '.join(fs.sched.trace), file=_s.stderr)
        symx.observe('requests', len(st.requests))
    finally:
        st.fs.close()
        st.sim.close()


def shapes(tier):
    cbA, cbB, cbC, payA, payAB, INITIAL = c07.cbA, c07.cbB, c07.cbC, c07.payA, c07.payAB, c07.INITIAL
    d1 = 1
    out = [
        # queries before / after a block, cached answers must be refreshed
        {'initial': INITIAL, 'deviations': d1,
         'script': [('query', 0, 'history', 'A'), ('query', 0, 'id_from_pos', (3, 0)), ('block', payA), ('query', 0, 'history', 'A')]},
        # a history query inside a forced same-height reorg window
        {'initial': INITIAL, 'deviations': d1, 'early': False,
         'script': [('block', payA), (('when', 'bp:backup_block:result', 1), ('query', 0, 'history', 'A')), ('force_reorg', 1)]},
        # by-height query inside a natural reorg window
        {'initial': INITIAL, 'deviations': d1, 'early': False,
         'script': [('block', payA), (('when', 'bp:backup_block:result', 1), ('query', 0, 'id_from_pos', (4, 1))),
                    ('reorg', 1, [cbB, payAB])]},
        # a history query racing a block that touches it
        {'initial': INITIAL, 'deviations': d1,
         'script': [(('when', 'bp:advance_block', 1), ('query', 0, 'history', 'A')), ('block', payA), ('block', cbB)]},
        # mempool list / unspent list around a confirmation
        {'initial': INITIAL, 'deviations': d1,
         'script': [('mp_add', 'm1', 1, 'A'), ('query', 0, 'mempool', 'A'), ('query', 0, 'listunspent', 'A'),
                    ('block', cbB, ['m1']), ('query', 0, 'balance', 'A')]},
    ]
    # by-height answers cached for several heights (walking back from the tip), then a reorg replacing two of them
    out.append({'initial': INITIAL + [payA, payAB], 'deviations': d1, 'early': False,
                'script': [('query', 0, 'id_from_pos_merkle', (5, 1))] +
                          [('query', 0, 'id_from_pos', (h, 0)) for h in (5, 4, 3, 2, 1, 0)] +
                          [('reorg', 2, [cbB, payA, cbC])]})
    out.append({'initial': INITIAL + [payA, payAB], 'deviations': 0, 'early': False,
                'script': [('query', 0, 'id_from_pos', (h, 0)) for h in (0, 1, 2, 3, 4, 5, 3, 1)] +
                          [('reorg', 2, [cbB, payA, cbC])]})
    # a block with an odd number (3) of transactions, proofs asked before and after it is replaced by a 3-tx block
    three = {'cb': 'C', 'txs': [{'ins': 1, 'outs': 'A'}, {'ins': 1, 'outs': 'B'}]}
    out.append({'initial': INITIAL + [three], 'deviations': d1, 'early': False,
                'script': [('query', 0, 'id_from_pos_merkle', (3, 2)), ('query', 0, 'id_from_pos', (3, 2)),
                           ('reorg', 1, [dict(three, cb='B'), cbA])]})
    # a cached history whose newest transaction exists only on the orphaned branch (not re-mined, not back in the
    # mempool): the reorg must evict it
    out.append({'initial': INITIAL, 'deviations': d1,
                'script': [('block', cbB), ('query', 0, 'history', 'B'), ('query', 0, 'listunspent', 'B'),
                           ('reorg', 1, [cbC, cbC])]})
    # a by-height request for a replaced height placed between the replacement block's advance and its flush (the
    # in-memory counts already cover it, the file still holds the orphaned block's hashes)
    out.append({'initial': INITIAL + [payA], 'deviations': d1, 'early': False,
                'script': [(('when', 'bp:advance_block:result', 2), ('query', 0, 'id_from_pos', (4, 1))),
                           (('when', 'bp:advance_block:result', 2), ('query', 0, 'id_from_pos_merkle', (4, 0))),
                           ('reorg', 1, [payAB, cbB])]})
    # a by-height read that starts just before the undo (while the reorg range is being worked out) and may be delivered
    # (postponed) after the reorg handler cleared the caches but before the next notification
    out.append({'initial': INITIAL + [payA], 'deviations': d1, 'early': False, 'hold': True,
                'script': [(('when', 'daemon:block_hex_hashes', 2), ('query', 0, 'id_from_pos', (4, 1))), ('reorg', 1, [cbB, payAB])]})
    if tier == 'thorough':
        for s in list(out):
            out.append(dict(s, deviations=2, window=10))
        out += [
            {'initial': INITIAL, 'deviations': 2, 'window': 12, 'early': False,
             'script': [('block', payA), ('block', payAB),
                        (('when', 'bp:backup_block:result', 2), ('query', 0, 'history', 'A')),
                        (('when', 'bp:backup_block:result', 1), ('query', 0, 'id_from_pos', (5, 1))),
                        ('reorg', 2, [cbB, cbC, payA])]},
            {'initial': INITIAL, 'deviations': 2, 'window': 12, 'early': False,
             'script': [('block', payA), (('when', 'bp:backup_block:result', 1), ('query', 0, 'balance', 'A')),
                        (('when', 'bp:backup_block:result', 1), ('query', 0, 'listunspent', 'A')), ('force_reorg', 1)]},
        ]
    return out


KERNELS = [
    Kernel('STORY', scenario, shapes,
           desc='full system under the gate scheduler: quiescent answers are fresh whatever was cached before',
           encodes=['electrumx/server/session.py:SessionManager.limited_history', '_notify_sessions',
                    '_handle_chain_reorgs', 'tx_hashes_at_blockheight', 'ElectrumX.confirmed_and_unconfirmed_history',
                    'get_balance', 'hashX_listunspent', 'unconfirmed_history', 'transaction_id_from_pos',
                    'electrumx/server/db.py:DB.limited_history', 'all_utxos', 'tx_hashes_at_blockheight'],
           bounds='11 (quick) / 24 (thorough) scripted stories with queries placed before, inside (right after '
                  'backup_block returns) and after reorganisation windows or racing a block; interleaving as in C07 '
                  '(1 / 2 deviations)',
           outside='as C07; cache eviction by capacity (1000 entries)',
           assumptions=['as C07'],
           witnesses=1, split_depth=1),
]
