"""C08 - a synchronised mempool view is exact.  (C09's scenario is built on the same world, see
c09.py.)

Real MemPool._refresh_hashes / _process_mempool / _fetch_and_accept / _accept_transactions /
balance_delta / transaction_summaries / unordered_UTXOs / potential_spends run on an asyncio loop
against a MemPoolAPI stub that answers from a reference world (confirmed UTXO set, mempool,
height).  Symbolic: every value (integers), the spend graph (each input selects, solver-enumerated,
an unspent confirmed output, an output of an earlier mempool transaction, or is generation-like),
the assignment of transaction hashes to roles (so that every delivery order inside a refresh is
covered although the code iterates a set).  Enumerated: which transactions arrive, are evicted or
are confirmed between refreshes.  read_tx is replaced by a stub returning the prepared Tx (the
parser is C13's subject).  After every synchronised refresh, for every script-hash class:
balance delta, the (hash, fee, has-unconfirmed-inputs) set, the unconfirmed outputs, potential
spends (superset of the true spends) and the touched set handed to on_mempool (superset of every
script hash that gained or lost a transaction since the previous hand-over).
"""
import asyncio
import itertools

from vlib import symx, chain
from vlib.runner import Kernel
from vlib.symx import engine, deep_eq, z3_and, z3_not, z3_or, z3_implies

CLASSES = 'ABC'
HASHES = [bytes([0x10 * (i + 1) + i]) * 32 for i in range(8)]


def hx(cls):
    from electrumx.lib.hash import sha256
    return bytes(sha256(chain.SCRIPTS[cls]))[:11]


class RefTx:
    def __init__(self, role, hash_, ins, outs, gen):
        self.role, self.hash, self.ins, self.outs, self.gen = role, hash_, ins, outs, gen
        # ins: list of ('db', key) / ('mp', role, idx); outs: list of (cls, value)


class RefWorld:
    '''Reference daemon + confirmed index.'''

    def __init__(self, eng):
        self.eng = eng
        self.height = 10
        self.db_height = 10
        self.utxos = {}            # (hash, idx) -> (cls, value)
        self.mempool = []          # list of RefTx currently in the daemon's mempool
        self.txs = {}              # role -> RefTx (all prepared)
        self.raw = {}              # placeholder raw bytes -> RefTx
        self.db_view = None        # the index's (possibly lagging) UTXO view; None = same as utxos

    def out_of(self, src):
        if src[0] == 'db':
            return self.db_all[src[1]]
        t = self.txs[src[1]]
        return t.outs[src[2]]

    def prevout(self, src):
        if src[0] == 'db':
            return src[1]
        return (self.txs[src[1]].hash, src[2])


class Api:
    def __init__(self, world, mpmod):
        self.w = world
        self.handed = []
        self.hook = None           # callable(name) at every API call (C09 changes the world there)
        self.lookup_miss = set()

    def _h(self, name):
        if self.hook:
            self.hook(name)

    async def height(self):
        self._h('height')
        self._cached = self.w.height
        return self.w.height

    def cached_height(self):
        return getattr(self, '_cached', self.w.height)

    def db_height(self):
        self._h('db_height')
        return self.w.db_height

    async def mempool_hashes(self):
        self._h('mempool_hashes')
        from electrumx.lib.hash import hash_to_hex_str
        return [hash_to_hex_str(t.hash) for t in self.w.mempool]

    async def raw_transactions(self, hex_hashes):
        self._h('raw_transactions')
        from electrumx.lib.hash import hex_str_to_hash
        present = {t.hash: t for t in self.w.mempool}
        out = []
        for hh in hex_hashes:
            t = present.get(hex_str_to_hash(hh))
            out.append(None if t is None else b'RAW' + t.hash)
        return out

    async def lookup_utxos(self, prevouts):
        self._h('lookup_utxos')
        out = []
        for p in prevouts:
            p = (bytes(p[0]), p[1])
            view = self.w.db_view if self.w.db_view is not None else self.w.utxos
            u = view.get(p)
            if u is None or p in self.lookup_miss:
                out.append(None)
            else:
                out.append((hx(u[0]), u[1]))
        return out

    async def on_mempool(self, touched, height):
        self.handed.append((set(touched), height))


def build(eng, shape):
    '''Prepare the world: confirmed outputs and the mempool transactions of the shape.'''
    from electrumx.lib.tx import Tx, TxInput, TxOutput
    w = RefWorld(eng)
    w.shape = shape
    native = symx.native()
    w.db_all = {}
    for i, cls in enumerate(shape['db']):
        key = (bytes([0xd0 + i]) * 32, i % 2)
        v = eng.fresh_int(f'dbv{i}', 0, 21 * 10 ** 14)
        w.utxos[key] = (cls, v)
        w.db_all[key] = (cls, v)
    n = len(shape['txs'])
    # which concrete hash each role gets: a symbolic permutation (covers every iteration order)
    free = list(range(n))
    perm = []
    for r in range(n):
        k = eng.choice(f'hash_of_role{r}', len(free)) if shape.get('permute', True) else 0
        perm.append(free.pop(k))
    spent = set()
    for r, spec in enumerate(shape['txs']):
        ins, gen = [], 0
        for j in range(spec['ins']):
            cands = [('db', k) for k in w.db_all if ('db', k) not in spent]
            for pr in range(r):
                for oi in range(len(w.txs[pr].outs)):
                    if ('mp', pr, oi) not in spent and w.txs[pr].outs[oi][0] in CLASSES:   # data carriers are unspendable
                        cands.append(('mp', pr, oi))
            cands.append(('gen',))
            k = eng.choice(f't{r}_in{j}', len(cands))
            src = cands[k]
            if src[0] == 'gen':
                gen += 1
            else:
                spent.add(src)
                ins.append(src)
        outs = [(cls, eng.fresh_int(f't{r}_v{j}', 0, 21 * 10 ** 14)) for j, cls in enumerate(spec['outs'])]
        t = RefTx(r, HASHES[perm[r]], ins, outs, gen)
        w.txs[r] = t
        txins = [TxInput(w.prevout(s)[0], w.prevout(s)[1], b'', 0) for s in ins]
        txins += [TxInput(bytes(32), 0xffffffff, b'', 0) for _ in range(gen)]
        t.tx = Tx(1, txins, [TxOutput(v, chain.SCRIPTS[c]) for c, v in outs], 0)
        w.raw[b'RAW' + t.hash] = t
    return w


def install(w):
    import electrumx.server.mempool as mpmod
    from electrumx.lib.coins import BitcoinSVRegtest

    def read_tx(raw, cursor):
        t = w.raw[bytes(raw)]
        return t.tx, 100 + t.role

    async def inline(f, *a):
        return f(*a)
    mpmod.read_tx = read_tx
    mpmod.run_in_thread = inline
    batch = w.shape.get('batch')
    if batch:
        # the fetch batch size (200 in the code) scaled down so that several batches - merged as they complete -
        # are reachable with a handful of transactions; the code is parametric in the size
        import electrumx.lib.util as util
        mpmod.chunks = lambda items, size: util.chunks(items, batch)
    else:
        import electrumx.lib.util as util
        mpmod.chunks = util.chunks
    import logging
    logging.disable(logging.CRITICAL)
    api = Api(w, mpmod)
    mpmod.MemPoolAPI.register(Api)
    mp = mpmod.MemPool(BitcoinSVRegtest, api)
    return mpmod, api, mp


class Stop(Exception):
    pass


def run_refreshes(mpmod, mp, api, steps):
    '''Drive the real _refresh_hashes; after every pass through its loop body (the sleep) the
    next step function runs; when none is left the loop is stopped.'''
    pending = list(steps)

    async def sleep(secs):
        if not pending:
            raise Stop()
        pending.pop(0)()
    saved = mpmod.sleep
    mpmod.sleep = sleep
    loop = asyncio.new_event_loop()
    try:
        ev = asyncio.Event()
        try:
            loop.run_until_complete(mp._refresh_hashes(ev))
        except Stop:
            pass
    finally:
        mpmod.sleep = saved
        loop.close()


# -- reference view and comparison -----------------------------------------------------------------

def ref_in_pairs(w, t):
    return [w.out_of(s) for s in t.ins]


def check_view(eng, w, mp, label, loop_run):
    present = {t.hash: t for t in w.mempool}
    sig = lambda s: {'signature': f'{label}:{s}'}   # noqa
    eng.prove(set(mp.txs) == set(present), f'{label}: tracked transaction set != daemon mempool',
              sig('tx-set'))
    if set(mp.txs) != set(present):
        return
    for cls in CLASSES:
        q = hx(cls)
        exp_delta = 0
        exp_sum = []
        exp_utxos = []
        true_spends = set()
        for t in w.mempool:
            ins = ref_in_pairs(w, t)
            touches = any(c == cls for c, _v in ins) or any(c == cls for c, _v in t.outs)
            for (c, v), s in zip(ins, t.ins):
                if c == cls:
                    exp_delta = exp_delta - v
                    true_spends.add(w.prevout(s))
            for pos, (c, v) in enumerate(t.outs):
                if c == cls:
                    exp_delta = exp_delta + v
                    exp_utxos.append((t.hash, pos, v))
            if touches:
                fee = sum(v for _c, v in ins) - sum(v for _c, v in t.outs)
                has_ui = any(s[0] == 'mp' and w.txs[s[1]].hash in present for s in t.ins)
                exp_sum.append((t.hash, fee, has_ui))
        got_delta = loop_run(mp.balance_delta(q))
        eng.prove(deep_eq(got_delta, exp_delta), f'{label}: unconfirmed balance delta wrong', sig('balance_delta'))
        got_sum = sorted(loop_run(mp.transaction_summaries(q)), key=lambda s: s.hash)
        exp_sum.sort(key=lambda s: s[0])
        eng.prove(len(got_sum) == len(exp_sum) and z3_and(
            [z3_and([g.hash == e[0], g.has_unconfirmed_inputs == e[2],
                     z3_or([z3_and([e[1] >= 0, deep_eq(g.fee, e[1])]), z3_and([e[1] < 0, deep_eq(g.fee, 0)])])])
             for g, e in zip(got_sum, exp_sum)]) is not False and z3_and(
            [z3_and([g.hash == e[0], g.has_unconfirmed_inputs == e[2],
                     z3_or([z3_and([e[1] >= 0, deep_eq(g.fee, e[1])]), z3_and([e[1] < 0, deep_eq(g.fee, 0)])])])
             for g, e in zip(got_sum, exp_sum)]),
            f'{label}: unconfirmed transaction list / fee / flag wrong', sig('summaries'))
        got_u = sorted(((u.tx_hash, u.tx_pos, u.value) for u in loop_run(mp.unordered_UTXOs(q))),
                       key=lambda x: (x[0], x[1]))
        exp_utxos.sort(key=lambda x: (x[0], x[1]))
        eng.prove(len(got_u) == len(exp_utxos) and z3_and(
            [z3_and([g[0] == e[0], g[1] == e[1], deep_eq(g[2], e[2])]) for g, e in zip(got_u, exp_utxos)]),
            f'{label}: unconfirmed outputs wrong', sig('unordered_UTXOs'))
        ps = loop_run(mp.potential_spends(q))
        eng.prove(true_spends <= {(bytes(h), i) for h, i in ps}, f'{label}: potential_spends misses a true spend',
                  sig('potential_spends'))
    # the by-script-hash index is the exact inverse of the transaction set
    inv = {}
    for h, t in mp.txs.items():
        for hX, _v in itertools.chain(t.in_pairs, t.out_pairs):
            inv.setdefault(hX, set()).add(h)
    eng.prove(inv == {k: set(v) for k, v in mp.hashXs.items()}, f'{label}: hashXs is not the inverse of txs',
              sig('index-inverse'))


def touches(w, t):
    return {hx(c) for c, _v in ref_in_pairs(w, t)} | {hx(c) for c, _v in t.outs}


def scenario(shape):
    eng = engine()
    w = build(eng, shape)
    mpmod, api, mp = install(w)
    from vlib.world import run_coro as loop_run   # the query coroutines never suspend
    try:
        state = {'n': 0, 'prev': set(), 'prev_touch': {}}

        def after_refresh(k):
            # called after refresh k completed (world was stable during it)
            label = f'refresh{k}'
            eng.prove(len(api.handed) == k + 1, f'{label}: refresh did not hand over a touched set',
                      {'signature': f'{label}:no-handover'})
            if len(api.handed) != k + 1:
                return
            touched, height = api.handed[-1]
            eng.prove(height == w.height, f'{label}: wrong height handed over', {'signature': f'{label}:height'})
            check_view(eng, w, mp, label, loop_run)
            now = {t.hash for t in w.mempool}
            changed = set()
            for t in w.txs.values():
                if (t.hash in now) != (t.hash in state['prev']):
                    changed |= state['prev_touch'].get(t.hash, set()) if t.hash in state['prev'] else touches(w, t)
            eng.prove(changed <= touched, f'{label}: touched set misses a script hash that gained or lost a transaction',
                      {'signature': f'{label}:touched'})
            state['prev'] = now
            state['prev_touch'] = {t.hash: touches(w, t) for t in w.mempool}

        def apply(ev):
            kind, roles = ev
            if kind == 'arrive':
                for r in roles:
                    w.mempool.append(w.txs[r])
            elif kind == 'evict':
                w.mempool = [t for t in w.mempool if t.role not in roles]
            elif kind == 'confirm':
                # a block confirms these transactions: the index catches up before the next refresh
                for r in roles:
                    t = w.txs[r]
                    for s in t.ins:
                        w.utxos.pop(w.prevout(s), None)
                    for pos, (c, v) in enumerate(t.outs):
                        w.utxos[(t.hash, pos)] = (c, v)
                        w.db_all[(t.hash, pos)] = (c, v)
                w.mempool = [t for t in w.mempool if t.role not in roles]
                w.height += 1
                w.db_height += 1
        events = shape['events']
        apply(events[0])
        steps = []
        for k in range(len(events)):
            def step(k=k):
                after_refresh(k)
                if k + 1 < len(events):
                    apply(events[k + 1])
            steps.append(step)
        run_refreshes(mpmod, mp, api, steps)
        symx.observe('handed', len(api.handed))
        symx.observe('final_txs', len(mp.txs))
    finally:
        pass


def shapes(tier):
    t1 = {'ins': 1, 'outs': 'A'}
    t2 = {'ins': 1, 'outs': 'AB'}
    t3 = {'ins': 2, 'outs': 'B'}
    out = [
        {'db': 'AB', 'txs': [t1, t2], 'events': [('arrive', [0, 1]), ('evict', [1]), ('confirm', [0])]},
        {'db': 'AA', 'txs': [t2, t1], 'events': [('arrive', [0]), ('arrive', [1]), ('confirm', [0]), ('confirm', [1])]},
        {'db': 'AB', 'txs': [t2, t3], 'events': [('arrive', [1, 0]), ('confirm', [0, 1])]},
        {'db': 'A', 'txs': [{'ins': 1, 'outs': 'AA'}, {'ins': 2, 'outs': 'C'}],
         'events': [('arrive', [0, 1]), ('evict', [0, 1]), ('arrive', [0])]},
    ]
    # a data-carrier output (OP_FALSE OP_RETURN) in front of spendable ones: positions must not shift
    out.append({'db': 'AB', 'txs': [{'ins': 1, 'outs': 'FAB'}, {'ins': 1, 'outs': 'C'}],
                'events': [('arrive', [0]), ('arrive', [1]), ('confirm', [0])]})
    # several fetch batches in one refresh (batch size scaled to 1): parents, children and confirmed inputs spread
    # over batches that are merged as they complete
    out.append({'db': 'AB', 'txs': [t2, t3, t1], 'events': [('arrive', [0, 1, 2])], 'batch': 1})
    if tier == 'thorough':
        out.append({'db': 'ABA', 'txs': [t3, t2, t3, t1], 'events': [('arrive', [0, 1, 2, 3]), ('evict', [3])], 'batch': 2,
                    'permute': False})
        out += [
            {'db': 'ABA', 'txs': [t1, t2, t3], 'events': [('arrive', [0, 1, 2]), ('confirm', [0]), ('evict', [2])]},
            {'db': 'AB', 'txs': [t2, t1, t1], 'events': [('arrive', [2, 1, 0]), ('confirm', [0, 1]), ('confirm', [2])]},
            {'db': 'AB', 'txs': [t2, t2, t3, t1], 'events': [('arrive', [0, 1]), ('arrive', [2, 3]), ('confirm', [0, 1, 2, 3])],
             'permute': False},
            {'db': 'AAB', 'txs': [t3, t2, t1], 'events': [('arrive', [0]), ('arrive', [1, 2]), ('evict', [1, 2]), ('confirm', [0])]},
        ]
    return out


KERNELS = [
    Kernel('VIEW', scenario, shapes,
           desc='exact mempool view after every synchronised refresh',
           encodes=['electrumx/server/mempool.py:MemPool._refresh_hashes', '_process_mempool', '_fetch_and_accept',
                    '_accept_transactions', 'balance_delta', 'transaction_summaries', 'unordered_UTXOs',
                    'potential_spends'],
           bounds='<= 3 (quick) / 4 (thorough) mempool transactions with <= 2 inputs and outputs over <= 4 refreshes; '
                  'symbolic: all values (integers in [0, 21e14]), the spend graph (confirmed outputs, outputs of '
                  'earlier mempool transactions, generation-like inputs), the hash-to-role assignment (= every '
                  'delivery order); arrival / eviction / confirmation events enumerated per shape',
           outside='more transactions, fetch batches of the real size (200; one shape scales the batch size down to 1 / 2 '
                   'to reach the multi-batch merge), the transaction parser (read_tx '
                   'stubbed); in VIEW DB.lookup_utxos is a stub answering from the reference, the real one is wired in by '
                   'the DBLOOKUP kernel',
           assumptions=['the daemon lists no double spends and no spends of non-existent outputs',
                        'script-hash classes and transaction hashes are concrete'],
           witnesses=1),
]


from props import dblookup as _dbl   # noqa: E402  (refresh against the REAL DB.lookup_utxos, shared with C09)
KERNELS.append(_dbl.KERNEL)
