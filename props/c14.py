"""C14 - history compaction never changes any script hash's history.

A history database is built through the real History.flush from rows whose entries are symbolic
40-bit transaction numbers (strictly increasing per script hash).  The compaction is then run
with the tool's own loop (open_for_compacting; comp_cursor; _compact_history(limit) until done;
set_flush_count) with max_hist_row_entries 2 or 3 and the batch limit a symbolic integer, and is
- completed, or stopped after a batch and resumed, or stopped and abandoned by a normal start, or
  completed, followed by more indexing and a second complete compaction.
At every stage get_txnums of every script hash must equal the original list; afterwards a
further flush and a History.backup at a symbolic threshold are applied on top and compared with
the reference.  Shapes respect the property's own restriction (no script hash ends up with more
compacted rows than the flush count).  Kernel TOOL executes the real electrumx_compact_history
script source on the same database.
"""
from vlib import symx, chain
from vlib.runner import Kernel
from vlib.symx import engine, deep_eq, z3_and, z3_not, z3_or, z3_implies, SBytes

HX = [b'\x00\x00' + b'\x11' * 9, b'\x00\x00' + b'\x22' * 9, b'\x00\x02' + b'\x33' * 9]


def _build(sim, eng, shape):
    '''Returns the reference: hashX index -> list of entries (SWord/int), and flush count.'''
    import electrumx.lib.util as util
    hist = sim.db.history
    hist.max_hist_row_entries = shape['row']
    ref = {i: [] for i in range(len(HX))}
    n = 0
    for f, per in enumerate(shape['flushes']):
        for i, cnt in enumerate(per):
            for _ in range(cnt):
                e = eng.fresh_word(f'e{n}', 40)
                n += 1
                if ref[i] and not sim.native:
                    eng.assume(e > ref[i][-1])
                ref[i].append(e)
                hist.unflushed[HX[i]].extend(util.pack_le_uint64(e)[:5])
        hist.flush()
    # what flush_dbs does after History.flush: the UTXO state records the history flush count
    sim.db.state.flush_count = hist.flush_count
    sim.db.state.first_sync = False
    sim.db.write_utxo_state(sim.db.utxo_db)
    return ref


def _check(sim, eng, ref, stage, sig=None):
    hist = sim.db.history
    for i, exp in ref.items():
        got = list(hist.get_txnums(HX[i], limit=None))
        eng.prove(len(got) == len(exp) and z3_and([deep_eq(a, b) for a, b in zip(got, exp)]),
                  f'{stage}: history of a script hash changed', {'signature': sig or f'{stage}:changed', 'hashX': i})
    symx.observe(f'{stage}.lens', [len(list(hist.get_txnums(HX[i], limit=None))) for i in ref])


def _reopen(sim, compacting, serve=False):
    sim._close_db()
    sim.env, sim.db = sim.world.new_db()
    if compacting:
        chain.run(sim.db.open_for_compacting())
    else:
        chain.run(sim.db.open_for_sync())
        if serve:
            # the server is already caught up when it starts: nothing is flushed before it re-opens for serving
            chain.run(sim.db.open_for_serving())
    return sim.db.history


def _tool_loop(sim, limit, max_batches=None):
    '''The loop of electrumx_compact_history (same statements), optionally stopped after
    max_batches batches (= the tool killed between batches).'''
    history = sim.db.history
    assert not sim.db.state.first_sync
    if history.comp_cursor == -1:
        history.comp_cursor = 0
    history.comp_flush_count = max(history.comp_flush_count, 1)
    batches = 0
    while history.comp_cursor != -1:
        history._compact_history(limit)
        batches += 1
        if max_batches is not None and batches >= max_batches:
            return False
    sim.db.set_flush_count(history.flush_count)
    return True


def scenario(shape):
    eng = engine()
    # the third script hash sits in cursor prefix 0002, or (marked shapes) in the very last prefix ffff
    HX[2] = (b'\xff\xff' if shape.get('last_prefix') else b'\x00\x02') + b'\x33' * 9
    sim = chain.Sim(activation=0)
    try:
        sim.open()
        ref = _build(sim, eng, shape)
        _check(sim, eng, ref, 'built')
        limit = eng.fresh_int('limit', 1, None) if shape.get('sym_limit', True) else shape.get('limit', 8 * 1000 * 1000)
        hist = _reopen(sim, True)
        hist.max_hist_row_entries = shape['row']
        mode = shape['mode']
        if mode in ('complete', 'twice'):
            _tool_loop(sim, limit)
        else:
            done = _tool_loop(sim, limit, max_batches=shape['stop_after'])
            _check(sim, eng, ref, 'stopped')
            # the tool was killed right after its FINAL batch (before set_flush_count) and that batch raised the
            # history flush count above the UTXO one (a script hash with more compacted rows than flushes)
            raised = sim.db.history.comp_cursor == -1 and sim.db.history.flush_count > sim.db.state.flush_count
            if mode == 'resume':
                hist = _reopen(sim, True)
                hist.max_hist_row_entries = shape['row']
                _check(sim, eng, ref, 'reopened-for-compacting',
                       'killed after the final batch before set_flush_count, flush count raised; reopened' if raised else None)
                _tool_loop(sim, limit)
            elif mode == 'abandon':
                pass
            eng.note(f'stopped after {shape["stop_after"]} batch(es), finished={done}')
        _check(sim, eng, ref, 'compacted')
        hist = _reopen(sim, False, serve=shape.get('serve', False))   # normal start (cancels an unfinished compaction)
        hist.max_hist_row_entries = shape['row']
        _check(sim, eng, ref, 'normal-start')
        if mode == 'twice' or shape.get('then_twice'):
            # index a block that leaves the multi-row script hash 0 untouched, compact a second time,
            # then index a block that touches it
            import electrumx.lib.util as util
            for i in ((0, 1, 2) if shape.get('then_twice') else (2,)):
                e = eng.fresh_word(f'mid{i}', 40)
                if ref[i] and not sim.native:
                    eng.assume(e > ref[i][-1])
                ref[i].append(e)
                hist.unflushed[HX[i]].extend(util.pack_le_uint64(e)[:5])
            hist.flush()
            sim.db.state.flush_count = hist.flush_count
            sim.db.write_utxo_state(sim.db.utxo_db)
            hist = _reopen(sim, True)
            hist.max_hist_row_entries = shape['row']
            _tool_loop(sim, eng.fresh_int('limit2', 1, None) if shape.get('sym_limit', True) else 8 * 1000 * 1000)
            _check(sim, eng, ref, 'compacted-twice')
            hist = _reopen(sim, False)
            hist.max_hist_row_entries = shape['row']
            _check(sim, eng, ref, 'normal-start-2')
        # keep indexing: one more flush, then undo back to a symbolic transaction count
        import electrumx.lib.util as util
        for i in (0, 2):
            e = eng.fresh_word(f'new{i}', 40)
            if ref[i] and not sim.native:
                eng.assume(e > ref[i][-1])
            ref[i].append(e)
            hist.unflushed[HX[i]].extend(util.pack_le_uint64(e)[:5])
        hist.flush()
        _check(sim, eng, ref, 'flushed-after')
        T = eng.fresh_word('backup_tx_count', 40)
        hist.backup({HX[0], HX[2]}, T)
        for i in (0, 2):
            got = list(hist.get_txnums(HX[i], limit=None))
            exp = ref[i]
            n = len(got)
            terms = [n <= len(exp)] + [deep_eq(a, b) for a, b in zip(got, exp)]
            terms += [exp[j] < T for j in range(min(n, len(exp)))]
            if n < len(exp):
                terms.append(z3_not(exp[n] < T))
            eng.prove(z3_and(terms), 'after compaction, undoing blocks leaves a wrong history',
                      {'signature': 'backup-after-compaction', 'hashX': i})
        got1 = list(hist.get_txnums(HX[1], limit=None))
        eng.prove(len(got1) == len(ref[1]) and z3_and([deep_eq(a, b) for a, b in zip(got1, ref[1])]),
                  'undoing blocks changed an untouched history', {'signature': 'backup-untouched'})
    finally:
        sim.close()


def tool(shape):
    '''The real script, executed from its source in /repo.'''
    import os
    eng = engine()
    sim = chain.Sim(activation=0)
    try:
        sim.open()
        ref = _build(sim, eng, shape)
        sim._close_db()
        tool_path = os.environ.get('VERIF_REPO', '/repo').rstrip('/') + '/electrumx_compact_history'
        src = open(tool_path).read()
        ns = {'__name__': 'compact_tool'}
        exec(compile(src, tool_path, 'exec'), ns)
        saved = dict(os.environ)
        from vlib.world import BASE_ENV
        os.environ.update(BASE_ENV)
        os.environ.update(DB_DIRECTORY=sim.world.dir if sim.native else '/',
                          DB_ENGINE='crashleveldb' if sim.native else 'memstore')
        created = []
        real_DB = ns['DB']

        def DBspy(env):
            db = real_DB(env)
            db.history.max_hist_row_entries = shape['row']
            created.append(db)
            return db
        ns['DB'] = DBspy
        try:
            sim.world.install()
            chain.run(ns['compact_history']())
        finally:
            os.environ.clear()
            os.environ.update(saved)
        if sim.native:
            for db in created:
                db.utxo_db.close()
                db.history.close_db()
        hist = _reopen(sim, False)
        hist.max_hist_row_entries = shape['row']
        _check(sim, eng, ref, 'after-tool')
        eng.prove(hist.flush_count == sim.db.state.flush_count, 'tool left the two flush counts different',
                  {'signature': 'flush-count-mismatch'})
    finally:
        sim.close()


def shapes(tier):
    out = []
    # flushes: per flush, entries added to (hx0, hx1, hx2); row = max entries per compacted row.
    # Restriction of the property: compacted rows per script hash <= flush count.
    bases = [
        {'row': 2, 'flushes': [(1, 1, 0), (2, 0, 1), (1, 1, 1)]},      # hx0: 4 entries -> 2 rows (<= 3)
        {'row': 3, 'flushes': [(3, 0, 1), (1, 2, 0), (2, 0, 2)]},      # hx0: 6 entries -> 2 rows
    ]
    if tier == 'quick':
        bases = bases[:1]
    if tier == 'thorough':
        bases += [
            {'row': 2, 'flushes': [(2, 1, 1), (2, 1, 0), (2, 0, 1), (0, 1, 1)]},   # hx0: 6 entries -> 3 rows (<= 4)
            {'row': 3, 'flushes': [(4, 1, 0), (1, 1, 3), (1, 0, 1)]},              # a row longer than a compacted row
            {'row': 2, 'flushes': [(2, 0, 0), (0, 2, 0), (0, 0, 2)]},              # rows already of compacted size
        ]
    out.append({'row': 2, 'flushes': [(2, 1, 0), (2, 0, 1), (1, 1, 1)], 'mode': 'twice', 'sym_limit': tier != 'quick',
                'last_prefix': True})
    if tier == 'thorough':
        out.append({'row': 2, 'flushes': [(2, 1, 1), (2, 1, 0), (2, 0, 1), (0, 1, 1)], 'mode': 'twice'})
        out.append({'row': 3, 'flushes': [(3, 0, 1), (3, 2, 0), (2, 0, 2)], 'mode': 'twice'})
    # a compaction killed between batches, a start with no block pending (open for sync, then for serving, nothing
    # flushed in between), a block touching every script hash, a second compaction to completion, more blocks
    out.append({'row': 2, 'flushes': [(2, 1, 0), (2, 0, 1), (1, 1, 1)], 'mode': 'abandon', 'stop_after': 1, 'serve': True,
                'then_twice': True, 'sym_limit': tier != 'quick', 'limit': 1})
    if tier == 'thorough':
        out.append({'row': 2, 'flushes': [(2, 1, 0), (2, 0, 1), (1, 1, 1)], 'mode': 'abandon', 'stop_after': 2, 'serve': True,
                    'then_twice': True})
        out.append({'row': 2, 'flushes': [(2, 1, 0), (2, 0, 1), (1, 1, 1)], 'mode': 'twice', 'serve': True})
    # more compacted rows than flushes (in scope for complete / resumed compactions: the flush count goes UP)
    out.append({'row': 2, 'flushes': [(7, 1, 0), (0, 1, 1)], 'mode': 'complete', 'sym_limit': tier != 'quick'})
    # stopped / killed after the first batch and resumed on such a database (hits the recorded known finding when the
    # batch limit lets the first batch be the final one)
    out.append({'row': 2, 'flushes': [(7, 1, 0), (0, 1, 1)], 'mode': 'resume', 'stop_after': 1})
    if tier == 'thorough':
        out.append({'row': 2, 'flushes': [(7, 0, 2)], 'mode': 'twice'})
        out.append({'row': 3, 'flushes': [(7, 7, 0), (4, 0, 1)], 'mode': 'complete', 'serve': True})
    for b in bases:
        out.append(dict(b, mode='complete'))
        for stop in (1, 2):
            out.append(dict(b, mode='resume', stop_after=stop))
            out.append(dict(b, mode='abandon', stop_after=stop))
    return out


KERNELS = [
    Kernel('COMPACT', scenario, shapes,
           desc='compaction with symbolic row contents and batch limit; completed / resumed / abandoned; then a '
                'flush and a backup on top',
           encodes=['electrumx/server/history.py:History._compact_history', '_compact_prefix', '_compact_hashX',
                    '_flush_compaction', '_cancel_compaction', 'open_db', 'read_state', 'write_state', 'clear_excess',
                    'flush', 'backup', 'get_txnums', 'electrumx/server/db.py:DB.open_for_compacting',
                    'set_flush_count', 'write_utxo_state'],
           bounds='3 script hashes in 2 cursor prefixes (concrete keys; 0000 and 0002, in one shape 0000 and the last prefix ffff), <= 4 flushes, <= 4 entries per row, '
                  'max_hist_row_entries 2 or 3; symbolic: every entry (40-bit, increasing per script hash), the batch '
                  'limit (any integer >= 1), the backup threshold (40-bit); stop after 1 or 2 batches then resume or '
                  'abandon (normal start), or complete; one mode: killed between batches, start with no block pending, block, second '
                  'compaction, blocks',
           outside='for the abandoned-then-keep-indexing modes: databases violating the property\'s restriction (more '
                   'compacted rows than flushes; complete / resumed / repeated compactions are run on such databases '
                   'too, up to 7 entries in a flush); more rows, interruption inside a batch (one atomic batch per pass)',
           assumptions=['LevelDB modelled by MemStore (atomic batches)'],
           witnesses=1, split_depth=3),
    Kernel('TOOL', tool, lambda tier: [{'row': 2, 'flushes': [(1, 1, 0), (2, 0, 1), (1, 1, 1)]}],
           desc='the electrumx_compact_history script itself, executed from its source',
           encodes=['electrumx_compact_history:compact_history'],
           bounds='one database shape, default limit', outside='-', witnesses=1),
]
