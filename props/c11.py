"""C11 - every merkle proof the server hands out verifies against the current chain.

K1  unit level on a real index (real DB / BlockProcessor, concrete chain whose headers carry the
    true merkle root): real ElectrumX.transaction_merkle / transaction_tsc_merkle /
    transaction_id_from_pos(merkle=True) / block_header(cp_height) / block_headers(cp_height),
    SessionManager._merkle_branch / merkle_branch_for_tx_hash / merkle_branch_for_tx_pos /
    tsc_merkle_proof_for_tx_hash, DB.header_branch_and_root.  height, position, cp_height are
    symbolic integers: out of range must be refused with RPCError, in range (solver-enumerated)
    the branch is folded by an independent function (hashlib only) and must give the merkle root
    field of that block's header / the root of all current block hashes up to the checkpoint.
    Blocks of 1..8 and 200..203 transactions (direct and MerkleCache path).
K2  system level (vlib/fullsim + story): proofs requested before, inside (right after backup_block
    returns, with the request's header read possibly postponed past the rest of the reorg) and
    after reorganisation windows; at quiescence every header proof (height <= cp <= tip) and every
    transaction proof is requested again and must fold to the current chain's roots.
"""
from vlib import symx, chain
from vlib.runner import Kernel
from vlib.symx import engine, z3_and, z3_or, z3_not


def _blocks(ntx):
    return {'cb': 'A', 'txs': [{'ins': 0, 'outs': 'B'} for _ in range(ntx - 1)]}


def _session(sim):
    import electrumx.server.session as smod
    import logging
    logging.disable(logging.CRITICAL)
    mgr = smod.SessionManager(sim.env, sim.db, None, None, None, None)
    s = smod.ElectrumX.__new__(smod.ElectrumX)
    s.session_mgr, s.db, s.env, s.coin = mgr, sim.db, sim.env, sim.env.coin
    s.bump_cost = lambda c: None
    s.daemon_request = None
    s.logger = logging.getLogger('verif')
    return mgr, s


def _run(coro):
    if symx.native():
        import asyncio
        return asyncio.new_event_loop().run_until_complete(coro)
    from vlib.world import run_coro
    return run_coro(coro)


def k1(shape):
    import electrumx.server.session as smod
    import electrumx.server.db as dbmod
    from electrumx.lib.hash import hash_to_hex_str, hex_str_to_hash
    eng = engine()
    sim = chain.Sim(activation=0, concrete=True)
    sim.merkle_headers = True
    try:
        sim.open()
        blocks = [sim.gen_block(_blocks(n), f'b{i}') for i, n in enumerate(shape['sizes'])]
        for b in blocks:
            sim.advance(b)
        sim.flush(True)
        if symx.native():
            async def inline(f, *a):
                return f(*a)
            dbmod.run_in_thread = inline
        tip = len(blocks) - 1
        _run(sim.db.header_mc.initialize(shape.get('mc_init', 1)))
        mgr, s = _session(sim)
        kind = shape['kind']
        if kind == 'tx':
            height = eng.fresh_int('height')
            pos = eng.fresh_int('tx_pos', None, max(shape['sizes']) + 2)
            try:
                res = _run(s.transaction_id_from_pos(height, pos, True))
            except smod.RPCError:
                eng.prove(z3_or([height < 0, height > tip, pos < 0] +
                                [z3_and([height == h, pos >= len(b.txs)]) for h, b in enumerate(blocks)]),
                          'K1: a valid (height, position) request was refused', {'signature': 'K1-refused'})
                return
            h, p = int(height), int(pos)
            b = blocks[h]
            eng.prove(0 <= p < len(b.txs) and res['tx_hash'] == hash_to_hex_str(b.txs[p].hash),
                      'K1: id_from_pos returns a wrong transaction', {'signature': 'K1-id_from_pos'})
            root = b.header[36:68]
            branch = [hex_str_to_hash(x) for x in res['merkle']]
            eng.prove(chain.ref_fold(b.txs[p].hash, branch, p) == root,
                      'K1: merkle branch by position does not fold to the header\'s merkle root',
                      {'signature': 'K1-pos-branch', 'height': h, 'pos': p})
            # by hash, classic and TSC
            txh = hash_to_hex_str(b.txs[p].hash)
            r2 = _run(s.transaction_merkle(txh, h))
            eng.prove(r2['pos'] == p and r2['block_height'] == h and chain.ref_fold(
                b.txs[p].hash, [hex_str_to_hash(x) for x in r2['merkle']], p) == root,
                'K1: merkle branch by hash does not fold to the header\'s merkle root', {'signature': 'K1-hash-branch'})
            for target in ('block_hash', 'block_header', 'merkle_root'):
                r3 = _run(s.transaction_tsc_merkle(txh, h, 'txid', target))
                nodes = _tsc_nodes(r3['nodes'], b, p)
                exp_target = {'block_hash': hash_to_hex_str(b.hash), 'block_header': b.header.hex(),
                              'merkle_root': hash_to_hex_str(root)}[target]
                eng.prove(r3['index'] == p and r3['target'] == exp_target and nodes is not None and
                          chain.ref_fold(b.txs[p].hash, nodes, p) == root,
                          'K1: TSC proof does not verify', {'signature': 'K1-tsc', 'target': target})
            # the position just past the block is still refused after proofs have been served from the cache
            try:
                _run(s.transaction_id_from_pos(h, len(b.txs), False))
                eng.prove(False, 'K1: a position past the end of the block is answered after proofs were served',
                          {'signature': 'K1-past-end'})
            except smod.RPCError:
                pass
            # a proof for a transaction that is not in that block is refused
            other = blocks[(h + 1) % len(blocks)].txs[0]
            if all(t.hash != other.hash for t in b.txs):
                try:
                    _run(s.transaction_merkle(hash_to_hex_str(other.hash), h))
                    eng.prove(False, 'K1: proof handed out for a transaction that is not in the block',
                              {'signature': 'K1-foreign-tx'})
                except smod.RPCError:
                    pass
            symx.observe('tx', (h, p))
        else:
            height = eng.fresh_int('height')
            cp = eng.fresh_int('cp_height')
            try:
                res = _run(s.block_header(height, cp))
            except smod.RPCError:
                eng.prove(z3_or([height < 0, cp < 0, height > tip, z3_and([cp != 0, z3_not(z3_and([height <= cp, cp <= tip]))])]),
                          'K1: a valid header proof request was refused', {'signature': 'K1-header-refused'})
                return
            h = int(height)
            if isinstance(res, str):
                eng.prove(z3_and([cp == 0, res == blocks[h].header.hex()]), 'K1: wrong raw header',
                          {'signature': 'K1-raw-header'})
                return
            c = int(cp)
            eng.prove(h <= c <= tip and res['header'] == blocks[h].header.hex(), 'K1: header proof outside the chain',
                      {'signature': 'K1-header-range'})
            root = chain.ref_merkle_root([b.hash for b in blocks[:c + 1]])
            branch = [hex_str_to_hash(x) for x in res['branch']]
            eng.prove(hex_str_to_hash(res['root']) == root and chain.ref_fold(blocks[h].hash, branch, h) == root,
                      'K1: header proof does not fold to the root of the current block hashes',
                      {'signature': 'K1-header-proof', 'height': h, 'cp': c})
            # block_headers with the same checkpoint
            r2 = _run(s.block_headers(h, 1, c))
            eng.prove(r2['count'] == 1 and hex_str_to_hash(r2['root']) == root and chain.ref_fold(
                blocks[h].hash, [hex_str_to_hash(x) for x in r2['branch']], h) == root,
                'K1: block_headers proof does not verify', {'signature': 'K1-headers-proof'})
            symx.observe('hdr', (h, c))
    finally:
        sim.close()


def _tsc_nodes(nodes, b, p):
    '''Expand the "*" markers of a TSC branch (duplicate of the running hash) for folding.'''
    from electrumx.lib.hash import hex_str_to_hash
    import hashlib
    out = []
    h = bytes(b.txs[p].hash)
    idx = p
    for n in nodes:
        e = h if n == '*' else hex_str_to_hash(n)
        out.append(e)
        h = hashlib.sha256(hashlib.sha256((e + h) if idx & 1 else (h + e)).digest()).digest()
        idx >>= 1
    return out


def k1_shapes(tier):
    out = [{'kind': 'tx', 'sizes': [1, 2, 3, 5]}, {'kind': 'tx', 'sizes': [4, 8, 7, 6]},
           {'kind': 'hdr', 'sizes': [1] * 6, 'mc_init': 1}, {'kind': 'hdr', 'sizes': [1] * 9, 'mc_init': 3}]
    if tier == 'quick':
        out.append({'kind': 'tx', 'sizes': [1, 200]})
    else:
        out += [{'kind': 'tx', 'sizes': [1, 200, 201]}, {'kind': 'tx', 'sizes': [202, 203]},
                {'kind': 'hdr', 'sizes': [1] * 17, 'mc_init': 5}, {'kind': 'hdr', 'sizes': [1] * 12, 'mc_init': 12}]
    return out


# -- K2 ------------------------------------------------------------------------------------------

def k2(shape):
    from vlib import story
    from electrumx.lib.hash import hash_to_hex_str, hex_str_to_hash
    st = story.Story(shape)
    eng = st.eng
    try:
        st.run()
        fs = st.fs
        fs.check_tasks()
        fs.sched.deviations = 0
        c = fs.clients[0]
        # proofs handed out during the story must verify against the chain they were issued on or be refused;
        # the ones repeated now must verify against the current chain
        blocks = st.main
        tip = len(blocks) - 1
        # answers given DURING the story (requests in flight while blocks were undone and replaced): each must be a
        # proof against one chain the daemon was on - header, branch and root consistent with it - or a refusal
        import ast
        for r in st.requests:
            if not (r['label'].startswith('query header_proof') and r['done'] and r['error'] is None):
                continue
            h, cp = ast.literal_eval(r['label'][len('query header_proof '):])
            res = r['result']
            ok = False
            for cand in [st.main] + list(st.old_chains):
                if len(cand) <= cp:
                    continue
                root = chain.ref_merkle_root([b.hash for b in cand[:cp + 1]])
                if res['header'] == cand[h].header.hex() and hex_str_to_hash(res['root']) == root and \
                        chain.ref_fold(cand[h].hash, [hex_str_to_hash(x) for x in res['branch']], h) == root:
                    ok = True
            eng.prove(ok, 'K2: a header proof answered during a story verifies against no chain the daemon was on',
                      {'signature': 'K2-inflight-header-proof', 'h': h, 'cp': cp})
        for r in st.requests:
            if not (r['label'].startswith('query id_from_pos_merkle') and r['done'] and r['error'] is None):
                continue
            h, pos = ast.literal_eval(r['label'][len('query id_from_pos_merkle '):])
            res = r['result']
            ok = False
            for cand in [st.main] + list(st.old_chains):
                if len(cand) <= h or pos >= len(cand[h].txs):
                    continue
                tx = cand[h].txs[pos]
                if res['tx_hash'] == hash_to_hex_str(tx.hash) and chain.ref_fold(
                        tx.hash, [hex_str_to_hash(x) for x in res['merkle']], pos) == cand[h].header[36:68]:
                    ok = True
            eng.prove(ok, 'K2: a transaction proof answered during a reorganisation verifies against no block the daemon announced',
                      {'signature': 'K2-inflight-tx-proof', 'height': h, 'pos': pos})
        for r in st.requests:
            if not (r['label'].startswith('query headers_proof') and r['done'] and r['error'] is None):
                continue
            start, count, cp = ast.literal_eval(r['label'][len('query headers_proof '):])
            res = r['result']
            ok = False
            for cand in [st.main] + list(st.old_chains):
                n = res['count']
                if len(cand) <= cp or n < 1 or start + n > len(cand) or 'root' not in res:
                    continue
                last = start + n - 1
                root = chain.ref_merkle_root([b.hash for b in cand[:cp + 1]])
                if res['hex'] == b''.join(b.header for b in cand[start:start + n]).hex() and \
                        hex_str_to_hash(res['root']) == root and \
                        chain.ref_fold(cand[last].hash, [hex_str_to_hash(x) for x in res['branch']], last) == root:
                    ok = True
            eng.prove(ok, 'K2: headers with proof answered during a reorganisation are consistent with no chain the daemon was on',
                      {'signature': 'K2-inflight-headers-proof', 'start': start, 'count': count, 'cp': cp})
        eng.prove(st.sim.db.state.height == tip, 'K2: the index is not at the daemon\'s height', {'signature': 'K2-height'})
        for h in range(0, tip + 1):
            for cp in range(max(h, 1), tip + 1):
                r = fs.spawn(st._query(c, 'header_proof', (h, cp)), 'final header_proof')
                fs.quiesce(1)
                ok = r['done'] and r['error'] is None
                eng.prove(ok, 'K2: a valid header proof request fails at quiescence',
                          {'signature': 'K2-header-proof-fails', 'error': repr(r['error']), 'h': h, 'cp': cp})
                if not ok:
                    continue
                root = chain.ref_merkle_root([b.hash for b in blocks[:cp + 1]])
                res = r['result']
                eng.prove(res['header'] == blocks[h].header.hex() and hex_str_to_hash(res['root']) == root and
                          chain.ref_fold(blocks[h].hash, [hex_str_to_hash(x) for x in res['branch']], h) == root,
                          'K2: header proof does not verify against the current chain',
                          {'signature': 'K2-header-proof', 'h': h, 'cp': cp})
        for b in blocks:
            for p, tx in enumerate(b.txs):
                r = fs.spawn(st._query(c, 'id_from_pos_merkle', (b.height, p)), 'final tx proof')
                fs.quiesce(1)
                ok = r['done'] and r['error'] is None
                eng.prove(ok and r['result']['tx_hash'] == hash_to_hex_str(tx.hash) and chain.ref_fold(
                    tx.hash, [hex_str_to_hash(x) for x in r['result']['merkle']], p) == b.header[36:68],
                    'K2: transaction proof does not verify against the current chain',
                    {'signature': 'K2-tx-proof', 'height': b.height, 'pos': p})
        symx.observe('tip', tip)
    finally:
        st.fs.close()
        st.sim.close()


def k2_shapes(tier):
    from props import c07
    cbA, cbB, cbC, payA, payAB = c07.cbA, c07.cbB, c07.cbC, c07.payA, c07.payAB
    INITIAL = [cbA, cbB, cbC, cbA, cbB, payA]
    out = [
        # a header proof in flight while a block is undone and replaced
        {'initial': INITIAL, 'deviations': 1, 'early': False, 'reorg_limit': 4,
         'script': [('query', 0, 'header_proof', (1, 3)), ('block', payA),
                    (('when', 'bp:advance_block', 1), ('query', 0, 'header_proof', (2, 6))),
                    ('reorg', 1, [cbB, payAB])]},
        # proofs inside a forced reorg window
        {'initial': INITIAL, 'deviations': 1, 'early': False, 'reorg_limit': 4,
         'script': [('block', payA), (('when', 'bp:backup_block:result', 1), ('query', 0, 'header_proof', (2, 5))),
                    (('when', 'bp:backup_block:result', 1), ('query', 0, 'id_from_pos_merkle', (5, 1))),
                    ('force_reorg', 2)]},
        {'initial': INITIAL, 'deviations': 1, 'reorg_limit': 4,
         'script': [('query', 0, 'header_proof', (0, 5)), ('block', cbC), ('query', 0, 'header_proof', (6, 6)),
                    ('reorg', 2, [cbA, cbB, cbC])]},
    ]
    # a reorg that undoes into the final partial segment of the header cache after a proof extended it
    # to an unaligned length (needs a segment size > 1: a chain of 8 with reorg limit 2)
    out.append({'initial': [cbA, cbB, cbC, cbA, cbB, cbC, cbA, cbB], 'deviations': 0, 'early': False, 'reorg_limit': 2,
                'script': [('query', 0, 'header_proof', (0, 6)), ('reorg', 2, [cbC, cbA, cbB])]})
    # the header cache was extended by a proof; a second proof needing a further extension is in flight (its header
    # read postponed) while a reorg truncates the cache below the start of its final segment and the new chain
    # grows past the checkpoint again
    out.append({'initial': [cbA, cbB, cbC, cbA, cbB, cbC, cbA, cbB, cbC], 'deviations': 1, 'early': False, 'reorg_limit': 4,
                'filter': 'db:',
                'script': [('query', 0, 'header_proof', (1, 6)),
                           (('when', 'daemon:block_hex_hashes', 2), ('query', 0, 'header_proof', (1, 8))),
                           ('reorg', 4, [cbB, cbC, cbA, cbB, cbC])]})
    # two header proofs with different checkpoints beyond the cached length issued together (no reorg): both extend
    # the header cache concurrently
    out.append({'initial': [cbA, cbB, cbC, cbA, cbB, cbC, cbA, cbB, cbC], 'deviations': 1, 'early': False, 'reorg_limit': 4,
                'filter': 'db:',
                'script': [(('when', 'bp.sleep', 1), ('query', 0, 'header_proof', (1, 8))),
                           (('when', 'bp.sleep', 1), ('query', 0, 'header_proof', (2, 6))), ('block', cbA)]})
    # header(s) above the fork point read before the undo, their proof computed after the reorg: the reply must be
    # of one chain
    out.append({'initial': [cbA, cbB, cbC, cbA, cbB, cbC, cbA, cbB, cbC], 'deviations': 1, 'early': False, 'reorg_limit': 4,
                'filter': 'db:',
                'script': [(('when', 'daemon:block_hex_hashes', 2), ('query', 0, 'header_proof', (7, 8))),
                           (('when', 'daemon:block_hex_hashes', 2), ('query', 0, 'headers_proof', (5, 3, 8))),
                           ('reorg', 4, [cbB, cbC, cbA, cbB, cbC])]})
    # a proof for a replaced height requested between the replacement block's advance and its flush (the in-memory
    # counts already cover it, the hash file still holds the orphaned block's hashes)
    out.append({'initial': INITIAL, 'deviations': 1, 'early': False, 'reorg_limit': 4,
                'script': [(('when', 'bp:advance_block:result', 2), ('query', 0, 'id_from_pos_merkle', (5, 1))),
                           ('reorg', 1, [payAB, cbB])]})
    # a transaction proof whose tx-hash read starts just before the undo (while the reorg range is being worked out) and
    # may be delivered (postponed) after the reorg handler cleared the caches, before the next notification
    out.append({'initial': INITIAL, 'deviations': 1, 'early': False, 'hold': True, 'reorg_limit': 4,
                'script': [(('when', 'daemon:block_hex_hashes', 2), ('query', 0, 'id_from_pos_merkle', (5, 1))), ('reorg', 1, [cbB, payAB])]})
    if tier == 'thorough':
        for s in list(out):
            if s['deviations']:
                out.append(dict(s, deviations=2, window=12))
        out.append({'initial': [cbA, cbB, cbC, cbA, cbB, cbC, cbA, cbB, cbC, cbA], 'deviations': 1, 'early': False,
                    'reorg_limit': 3, 'script': [('query', 0, 'header_proof', (1, 8)), ('reorg', 3, [cbC, cbA, cbB, cbC]),
                                                 ('query', 0, 'header_proof', (2, 8)), ('reorg', 1, [cbA, cbB])]})
    return out


KERNELS = [
    Kernel('K1', k1, k1_shapes,
           desc='proof handlers on a real index: fold-back against header roots; ranges over symbolic integers',
           encodes=['electrumx/server/session.py:ElectrumX.transaction_merkle', 'transaction_tsc_merkle',
                    'transaction_id_from_pos', 'block_header', 'block_headers', '_merkle_proof',
                    'SessionManager._merkle_branch', 'merkle_branch_for_tx_hash', 'merkle_branch_for_tx_pos',
                    'tsc_merkle_proof_for_tx_hash', 'tx_hashes_at_blockheight', 'raw_header',
                    'electrumx/server/db.py:DB.header_branch_and_root', 'fs_block_hashes', 'read_headers',
                    'fs_tx_hashes_at_blockheight', 'electrumx/lib/merkle.py:MerkleCache.branch_and_root',
                    'Merkle.branch_and_root'],
           bounds='blocks of 1..8 and 200 (quick) / 200..203 (thorough) transactions; height and checkpoint height any integers, position any integer up to the largest block + 2 (out-of-range classes by the solver, in-range values solver-enumerated); chains '
                  'of 6..17 blocks for header proofs with the header cache initialised at 1, 3, 5 or 12',
           outside='other block sizes; symbolic transaction content (hashes are concrete so that the real '
                   'double_sha256 can be folded independently)',
           assumptions=['LevelDB modelled by MemStore, meta files by MemFS (symbolic mode)'],
           witnesses=1),
    Kernel('K2', k2, k2_shapes,
           desc='proofs around reorganisations in the full system, requests in flight while blocks are undone',
           encodes=['electrumx/lib/merkle.py:MerkleCache._extend_to', '_level_for', 'truncate', 'branch_and_root',
                    'electrumx/server/db.py:DB.backup_fs', 'header_branch_and_root', 'populate_header_merkle_cache',
                    'electrumx/server/session.py:SessionManager._handle_chain_reorgs', 'tx_hashes_at_blockheight'],
           bounds='9 stories (x2 deviation budgets in thorough) on a 6..9-block start with reorg limit 4; interleaving '
                  'as in C07',
           outside='as C07', assumptions=['as C07'], witnesses=1, split_depth=1),
]
