"""C18 - daemon calls ride out transient faults and return only genuine results.

Real Daemon._send / _send_single / _send_vector / _post_json / _get_to_file / failover / height /
block_hex_hashes / getrawtransactions / mempool_hashes / get_block against a stub aiohttp
session.  Symbolic: the fault kind of each of k consecutive attempts (solver-enumerated over the
eight handled kinds), init_retry and max_retry (reals with 0 < init <= max <= 16*init).
Enumerated: k, the number of URLs (1..3), the call.  Proved: the value finally returned is the
stub daemon's answer to this request (position by position for batches, None in place of errors
only with replace_errs); a genuine error reply raises DaemonError at once and is never retried;
the sequence of sleeps and URLs follows the back-off / round-robin fail-over rule; the block file
holds exactly the bytes of the last attempt and the returned size is its length.
"""
import asyncio
import json as _json

from vlib import symx
from vlib.runner import Kernel
from vlib.symx import engine, deep_eq, z3_and, z3_not, z3_or, z3_implies, SInt

FAULTS = ['timeout', 'disconnected', 'reset', 'conn', 'client', 'refused', 'warmup', 'warmup_batch']


class Deadlock(Exception):
    '''The call is suspended and nothing can ever wake it (every source of events is a stub).'''


def _run(coro):
    loop = asyncio.new_event_loop()
    try:
        task = loop.create_task(coro)
        for _ in range(100000):
            loop.call_soon(loop.stop)
            loop.run_forever()
            if task.done():
                return task.result()
            if not loop._ready and not loop._scheduled:
                task.cancel()
                loop.call_soon(loop.stop)
                loop.run_forever()
                raise Deadlock()
        raise RuntimeError('event loop does not settle')
    finally:
        loop.close()


class _Resp:
    def __init__(self, kind, payload=None, chunks=None, fail_after=None):
        self.kind, self.payload, self.chunks, self.fail_after = kind, payload, chunks, fail_after
        self.headers = {'Content-Type': {'json': 'application/json', 'bin': 'application/octet-stream',
                                         'text': 'text/html'}[kind]}
        self.reason = 'Service Unavailable'
        self.content = self

    async def __aenter__(self):
        return self

    async def __aexit__(self, *a):
        return False

    async def json(self):
        return self.payload

    async def text(self):
        return ' work queue depth exceeded '

    async def iter_chunks(self):
        for n, c in enumerate(self.chunks):
            if self.fail_after is not None and n == self.fail_after:
                raise asyncio.TimeoutError()
            yield c, True


class _Ctx:
    def __init__(self, fn):
        self.fn = fn

    async def __aenter__(self):
        self.r = self.fn()
        return await self.r.__aenter__()

    async def __aexit__(self, *a):
        return False


def answer(req):
    '''The stub daemon's genuine answer to one JSON-RPC request.'''
    m, p = req['method'], req.get('params')
    if m == 'getblockcount':
        res = 1234
    elif m == 'getblockhash':
        res = f'{p[0]:064x}'
    elif m == 'getrawmempool':
        res = ['aa' * 32, 'bb' * 32]
    elif m == 'getrawtransaction':
        if p[0].startswith('ee'):
            return {'id': req['id'], 'result': None, 'error': {'code': -5, 'message': 'No such mempool tx'}}
        res = p[0][:8] * 3
    else:
        return {'id': req['id'], 'result': None, 'error': {'code': -32601, 'message': 'Method not found'}}
    return {'id': req['id'], 'result': res, 'error': None}


def scenario(shape):
    import aiohttp
    import electrumx.server.daemon as dmod
    from electrumx.lib.coins import BitcoinSVRegtest
    eng = engine()
    k, nurls, call = shape['k'], shape['urls'], shape['call']
    init = eng.fresh_real('init_retry')
    mx = eng.fresh_real('max_retry')
    if not symx.native():
        eng.assume(z3_and([init > 0, mx >= init, mx <= init * 16]))
    faults = [FAULTS[eng.choice(f'fault{j}', len(FAULTS))] for j in range(k)]
    eng.note('faults=' + ','.join(faults))
    urls = ','.join(f'http://u:p@host{n}:8332/' for n in range(nurls))
    d = dmod.Daemon(BitcoinSVRegtest, urls, init_retry=init, max_retry=mx)
    posts, sleeps = [], []
    block_bytes = [bytes([j + 1]) * (5 + j) for j in range(k + 1)]

    class Session:
        def post(self, url, data=None):
            def make():
                n = len(posts)
                req = _json.loads(data)
                posts.append((url, req))
                if n < k:
                    f = faults[n]
                    if f == 'timeout':
                        raise asyncio.TimeoutError()
                    if f == 'disconnected':
                        raise aiohttp.ServerDisconnectedError()
                    if f == 'reset':
                        raise ConnectionResetError()
                    if f == 'conn':
                        raise aiohttp.ClientConnectionError()
                    if f == 'client':
                        raise aiohttp.ClientPayloadError()
                    if f == 'refused':
                        return _Resp('text')
                    warm = {'code': -28, 'message': 'Loading block index...'}
                    if isinstance(req, list):
                        out = [answer(r) for r in req]
                        if f == 'warmup_batch' and len(out) > 1:
                            out[-1] = {'id': req[-1]['id'], 'result': None, 'error': warm}
                        else:
                            out[0] = {'id': req[0]['id'], 'result': None, 'error': warm}
                        return _Resp('json', out)
                    return _Resp('json', {'id': req['id'], 'result': None, 'error': warm})
                if isinstance(req, list):
                    return _Resp('json', [answer(r) for r in req])
                return _Resp('json', answer(req))
            return _Ctx(make)

        def get(self, url):
            def make():
                n = len(posts)
                posts.append((url, None))
                if n < k:
                    f = faults[n]
                    if f in ('refused', 'warmup', 'warmup_batch'):
                        return _Resp('text')
                    if f == 'timeout':
                        # dies in the middle of the stream, after a chunk has been written
                        return _Resp('bin', chunks=[block_bytes[n][:3], block_bytes[n][3:]], fail_after=1)
                    if f == 'disconnected':
                        raise aiohttp.ServerDisconnectedError()
                    if f == 'reset':
                        raise ConnectionResetError()
                    if f == 'conn':
                        raise aiohttp.ClientConnectionError()
                    raise aiohttp.ClientPayloadError()
                b = block_bytes[n]
                return _Resp('bin', chunks=[b[:2], b[2:]])
            return _Ctx(make)
    d.session = Session()
    if shape.get('permits'):
        # the work-queue semaphore (10 permits in the code) scaled down so that a permit leaked per fault shows within
        # the fault bound
        d.workqueue_semaphore = asyncio.Semaphore(shape['permits'])

    class AsyncioShim:
        TimeoutError = asyncio.TimeoutError
        Semaphore = asyncio.Semaphore

        @staticmethod
        async def sleep(delay):
            sleeps.append(delay)
    saved = (dmod.asyncio, dmod.run_in_thread, dmod.open_truncate)
    dmod.asyncio = AsyncioShim

    async def inline(f, *a):
        return f(*a)
    dmod.run_in_thread = inline
    files = {}

    class F:
        def __init__(self, name):
            files[name] = bytearray()
            self.name = name

        def __enter__(self):
            return self

        def __exit__(self, *a):
            return False

        def write(self, b):
            files[self.name] += b
            return len(b)
    dmod.open_truncate = F
    import logging
    logging.disable(logging.CRITICAL)
    try:
        err = None
        try:
            if call == 'height':
                got = _run(d.height())
                exp = 1234
            elif call == 'hashes':
                got = _run(d.block_hex_hashes(7, 3))
                exp = [f'{h:064x}' for h in (7, 8, 9)]
            elif call == 'mempool':
                got = _run(d.mempool_hashes())
                exp = ['aa' * 32, 'bb' * 32]
            elif call == 'rawtxs':
                hs = ['01' * 32, 'ee' * 32, '03' * 32]
                got = _run(d.getrawtransactions(hs))
                exp = [bytes.fromhex(('01' * 4) * 3), None, bytes.fromhex(('03' * 4) * 3)]
            elif call == 'rawtxs_strict':
                hs = ['01' * 32, 'ee' * 32, '03' * 32]
                exp = None
                got = _run(d.getrawtransactions(hs, replace_errs=False))
            elif call == 'error':
                exp = None
                got = _run(d._send_single('nosuchmethod'))
            elif call == 'block':
                got = _run(d.get_block('ab' * 32, 'blockfile'))
                exp = len(block_bytes[k])
        except dmod.DaemonError as e:
            err = e
        except Deadlock:
            eng.prove(False, 'the call never returns although the daemon answers again (it waits for something nothing '
                             'will ever release)', {'signature': 'deadlock', 'call': call})
            return
        if call in ('rawtxs_strict', 'error'):
            eng.prove(err is not None, 'a genuine daemon error reply was not raised', {'signature': 'error-swallowed'})
        else:
            eng.prove(err is None and got == exp, 'daemon call returned a wrong / misaligned result',
                      {'signature': 'wrong-result', 'call': call})
        eng.prove(len(posts) == k + 1, 'wrong number of attempts (genuine reply retried or fault not retried)',
                  {'signature': 'attempts', 'posts': len(posts)})
        if call == 'block':
            eng.prove(bytes(files['blockfile']) == block_bytes[k],
                      'block file does not hold exactly the last attempt', {'signature': 'block-file'})
        if call in ('hashes', 'rawtxs') and isinstance(posts[-1][1], list):
            eng.prove([r['params'][0] for r in posts[-1][1]] == ([7, 8, 9] if call == 'hashes' else hs),
                      'batch request misordered', {'signature': 'batch-order'})
        # back-off and fail-over rule (reference restated independently)
        r = init
        idx = 0
        terms = [len(sleeps) == k]
        for j in range(k):
            terms.append(posts[j][0].startswith(f'http://u:p@host{idx}:'))
            fo = z3_and([deep_eq(r, mx), nurls > 1])
            fo = bool(fo) if isinstance(fo, bool) else bool(symx.SBool(fo))
            slept = 0 if fo else r
            if fo:
                idx = (idx + 1) % nurls
            if j < len(sleeps):
                terms.append(deep_eq(sleeps[j], slept))
            r = _rmax(_rmin(mx, slept * 2), init)
        terms.append(posts[k][0].startswith(f'http://u:p@host{idx}:'))
        eng.prove(z3_and(terms), 'back-off / round-robin fail-over sequence wrong', {'signature': 'backoff-failover'})
        symx.observe('attempts', len(posts))
        symx.observe('urls', [u for u, _r in posts])
    finally:
        dmod.asyncio, dmod.run_in_thread, dmod.open_truncate = saved


def _rmin(a, b):
    if bool(a < b):
        return a
    return b


def _rmax(a, b):
    if bool(a > b):
        return a
    return b


def shapes(tier):
    out = []
    calls = ['height', 'hashes', 'rawtxs', 'rawtxs_strict', 'error', 'block', 'mempool']
    kmax = 3 if tier == 'quick' else 4
    for call in calls:
        for k in range(0, kmax + 1):
            for urls in (1, 2, 3):
                if tier == 'quick' and ((k + urls) % 2 == 0 and k > 1) and call not in ('height', 'block'):
                    continue
                if k >= 4 and call not in ('height', 'hashes', 'block'):
                    continue
                out.append({'k': k, 'urls': urls, 'call': call})
    # the work-queue semaphore scaled from 10 permits to 2: k = 3 faults then an answer must still return
    out += [{'k': 3, 'urls': 1, 'call': 'height', 'permits': 2}, {'k': 3, 'urls': 2, 'call': 'rawtxs', 'permits': 2}]
    if tier == 'thorough':
        out += [{'k': 4, 'urls': 3, 'call': 'hashes', 'permits': 3}, {'k': 2, 'urls': 1, 'call': 'mempool', 'permits': 1}]
        out += [{'k': 5, 'urls': 2, 'call': 'height'}]
    return out


KERNELS = [
    Kernel('SEND', scenario, shapes,
           desc='retry / fail-over / result alignment under symbolic fault sequences and retry parameters',
           encodes=['electrumx/server/daemon.py:Daemon._send', '_send_single', '_send_vector', '_post_json',
                    '_get_to_file', 'failover', 'current_url', 'height', 'block_hex_hashes', 'getrawtransactions',
                    'mempool_hashes', 'get_block'],
           bounds='k <= 3 (quick) / 4 (5 for height with two URLs) consecutive faults, each any of the 8 handled kinds '
                  '(solver-enumerated); 1..3 URLs; init_retry, max_retry any reals with 0 < init <= max <= 16 init; two shapes '
                  '(thorough: four) with the work-queue semaphore scaled from 10 permits down to 1..3; a call that can '
                  'never be woken (all event sources are stubs) is a violation',
           outside='longer fault sequences; max_retry > 16 init; a daemon that answers batches out of order',
           assumptions=['aiohttp session, asyncio.sleep, worker thread and the block file are stubs',
                        'real-number arithmetic stands for binary floating point (doubling, min and max are exact '
                        'in both)', 'logging is a no-op'],
           witnesses=1, split_depth=3),
]
