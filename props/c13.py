"""C13 - transactions and blocks parsed exactly, however the block file is chunked.

K1  serialize -> parse round trip with every field symbolic (all bytes), plus: the bytes handed
    to the hash function are exactly the serialisation.
K2  every proper prefix of a serialisation makes read_tx raise (never return).
K3  OnDiskBlock.iter_txs / _chunk_offsets / iter_txs_reversed on an in-memory block file with a
    symbolic chunk size >= 1: forward order exact, reverse order the exact reverse.
"""
import os
import struct

from vlib import symx
from vlib.runner import Kernel
from vlib.symx import engine, deep_eq, z3_and, SBytes

EXC = (struct.error, IndexError, AssertionError)


def _setup(shape):
    if not symx.native():
        from vlib import shims
        shims.DSHA256.injective = False


def _txmod():
    import electrumx.lib.tx as txmod
    return txmod


def _mk_tx(eng, tag, in_lens, out_lens, concrete_big=True):
    txmod = _txmod()
    ins, outs = [], []
    for i, L in enumerate(in_lens):
        script = (bytes([(7 * k + i) & 0xff for k in range(L)]) if (L > 300 and concrete_big)
                  else eng.fresh_bytes(f'{tag}is{i}', L))
        if symx.native() and L == 0:
            script = b''
        ins.append(txmod.TxInput(eng.fresh_bytes(f'{tag}ph{i}', 32), eng.fresh_word(f'{tag}pi{i}', 32),
                                 script, eng.fresh_word(f'{tag}sq{i}', 32)))
    for i, L in enumerate(out_lens):
        script = (bytes([(11 * k + i) & 0xff for k in range(L)]) if (L > 300 and concrete_big)
                  else eng.fresh_bytes(f'{tag}os{i}', L))
        if symx.native() and L == 0:
            script = b''
        outs.append(txmod.TxOutput(eng.fresh_word(f'{tag}v{i}', 64, signed=True), script))
    return txmod.Tx(eng.fresh_word(f'{tag}ver', 32, signed=True), ins, outs, eng.fresh_word(f'{tag}lock', 32))


def _tx_eq(a, b):
    terms = [deep_eq(a.version, b.version), deep_eq(a.locktime, b.locktime),
             len(a.inputs) == len(b.inputs), len(a.outputs) == len(b.outputs)]
    for x, y in zip(a.inputs, b.inputs):
        terms += [deep_eq(_b(x.prev_hash), _b(y.prev_hash)), deep_eq(x.prev_idx, y.prev_idx),
                  deep_eq(_b(x.script), _b(y.script)), deep_eq(x.sequence, y.sequence)]
    for x, y in zip(a.outputs, b.outputs):
        terms += [deep_eq(x.value, y.value), deep_eq(_b(x.pk_script), _b(y.pk_script))]
    return z3_and(terms)


def _b(x):
    return bytes(x) if isinstance(x, memoryview) else x


def _len(x):
    return len(x)


# -- K1 + K2 -----------------------------------------------------------------------------------

def k12(shape):
    eng = engine()
    txmod = _txmod()
    tx = _mk_tx(eng, '', shape['ins'], shape['outs'])
    raw = tx.serialize()
    n = _len(raw)
    # K1
    hashed = []
    real_dsha = txmod.double_sha256

    def spy(x):
        hashed.append(x)
        return real_dsha(x)
    txmod.double_sha256 = spy
    try:
        d = txmod.Deserializer(raw)
        tx2, h = d.read_tx_and_hash()
    finally:
        txmod.double_sha256 = real_dsha
    eng.prove(d.cursor == n, 'K1: cursor after parse != length of the serialisation', {'signature': 'K1-cursor'})
    eng.prove(_tx_eq(tx, tx2), 'K1: parsed transaction differs from the serialised one', {'signature': 'K1-fields'})
    eng.prove(len(hashed) == 1 and deep_eq(_b(hashed[0]), _b(raw)),
              'K1: bytes hashed are not exactly the serialisation', {'signature': 'K1-hashed-bytes'})
    eng.prove(deep_eq(h, real_dsha(raw)), 'K1: tx hash != double_sha256(serialisation)', {'signature': 'K1-hash'})
    eng.prove(deep_eq(_b(tx2.serialize()), _b(raw)), 'K1: re-serialisation differs', {'signature': 'K1-reserialize'})
    symx.observe('len', n)
    symx.observe('raw_head', _b(raw)[:12])
    # K2: every cut (for the huge shapes: every cut near both ends and a stride in between)
    cuts = range(n) if n <= 2000 else sorted(set(range(0, 120)) | set(range(n - 120, n)) | set(range(0, n, 4099)))
    bad = []
    for c in cuts:
        try:
            txmod.read_tx(raw[:c], 0)
            bad.append(c)
        except EXC:
            pass
    eng.prove(not bad, 'K2: read_tx returned a transaction from a truncated buffer',
              {'signature': 'K2-truncation', 'cuts': bad[:5]})
    symx.observe('cuts', len(cuts))


def k12_shapes(tier):
    base = [0, 1, 2, 252, 253, 254]
    out = []
    small = [0, 1, 253] if tier == 'quick' else base
    for a in small:
        for b in small:
            out.append({'ins': [a], 'outs': [b]})
    out += [{'ins': [], 'outs': []}, {'ins': [], 'outs': [1]}, {'ins': [2], 'outs': []},
            {'ins': [0, 252], 'outs': [253, 1]}, {'ins': [1, 0], 'outs': [0, 0]}]
    # counts on the varint width boundary (252 / 253 items)
    out += [{'ins': [0] * 253, 'outs': [0]}, {'ins': [1], 'outs': [0] * 253}]
    if tier == 'thorough':
        out += [{'ins': [0] * 252, 'outs': [0] * 254}, {'ins': [65535], 'outs': [1]}, {'ins': [1], 'outs': [65536]},
                {'ins': [254, 2], 'outs': [2, 254]}, {'ins': [0, 0, 0], 'outs': [1, 1, 1]}]
    return out


# -- K3 ----------------------------------------------------------------------------------------

def k3(shape):
    eng = engine()
    txmod = _txmod()
    import electrumx.server.block_processor as bpmod
    import electrumx.lib.util as util
    sizes = shape['txs']               # list of (in_lens, out_lens)
    txs = [_mk_tx(eng, f't{k}_', i, o) for k, (i, o) in enumerate(sizes)]
    raws = [t.serialize() for t in txs]
    header = bytes(range(80))
    body = util.pack_varint(len(txs))
    for r in raws:
        body = body + r
    block = header + body
    total = _len(block)
    chunk = eng.fresh_int('chunk_size', 1, None)
    hex_hash = '00' * 32
    height = 7
    native = symx.native()
    if native:
        import tempfile, shutil
        d = tempfile.mkdtemp(prefix='verif-c13-', dir=os.environ.get('VERIF_SCRATCH'))
        cwd = os.getcwd()
        os.chdir(d)
        os.makedirs('meta/blocks')
        with open(bpmod.OnDiskBlock.filename(hex_hash, height), 'wb') as f:
            f.write(bytes(block))
    else:
        from vlib.world import World
        w = World()
        w.install()
        import electrumx.server.db   # noqa (install() patches it)
        w.fs.files[bpmod.OnDiskBlock.filename(hex_hash, height)] = list(SBytes.of(block).c)
    saved = bpmod.OnDiskBlock.chunk_size
    bpmod.OnDiskBlock.chunk_size = chunk
    bpmod.OnDiskBlock.log_block = False
    try:
        blk = bpmod.OnDiskBlock(hex_hash, height, total)
        with blk as b:
            fwd = list(b.iter_txs())
        with blk as b:
            rev = list(b.iter_txs_reversed())
    finally:
        bpmod.OnDiskBlock.chunk_size = saved
        if native:
            os.chdir(cwd)
            shutil.rmtree(d, ignore_errors=True)
    real_dsha = txmod.double_sha256
    eng.prove(len(fwd) == len(txs), 'K3: iter_txs yields a wrong number of transactions',
              {'signature': 'K3-forward-count', 'got': len(fwd)})
    eng.prove(z3_and([_tx_eq(a, t) for (a, _h), t in zip(fwd, txs)] +
                     [deep_eq(h, real_dsha(r)) for (_a, h), r in zip(fwd, raws)]),
              'K3: iter_txs yields wrong transactions / hashes', {'signature': 'K3-forward'})
    eng.prove(len(rev) == len(txs), 'K3: iter_txs_reversed yields a wrong number of transactions',
              {'signature': 'K3-reverse-count', 'got': len(rev)})
    eng.prove(z3_and([_tx_eq(a, t) for (a, _h), t in zip(rev, reversed(txs))] +
                     [deep_eq(h, real_dsha(r)) for (_a, h), r in zip(rev, reversed(raws))]),
              'K3: iter_txs_reversed is not the exact reverse', {'signature': 'K3-reverse'})
    symx.observe('n_fwd', len(fwd))
    symx.observe('n_rev', len(rev))
    symx.observe('total', total)


def k3_shapes(tier):
    S = ([0], [0])          # 60-byte tx
    M = ([1], [30])         # ~91 bytes
    L = ([100], [3])        # ~163 bytes: larger than small chunks
    shapes = [[S], [L], [S, S], [L, S], [S, L], [S, S, S], [S, L, S]]
    if tier == 'thorough':
        shapes += [[L, S, S], [S, S, L], [L, L], [M, S, M, S], [S, M, L, S], [L, S, L], [S, S, S, S],
                   [([0, 0], [0, 0]), S, ([253], [0])]]
    return [{'txs': s} for s in shapes]


KERNELS = [
    Kernel('K1K2', k12, k12_shapes, setup=_setup,
           desc='Tx.serialize -> Deserializer.read_tx_and_hash round trip, all field bytes symbolic; every '
                'truncation of the serialisation raises',
           encodes=['electrumx/lib/tx.py:Tx.serialize', 'TxInput.serialize', 'TxOutput.serialize', 'read_tx',
                    'read_many', 'read_input', 'read_output', 'read_varint', 'read_varbytes',
                    'Deserializer.read_tx_and_hash', 'electrumx/lib/util.py:pack_varint', 'pack_varbytes'],
           bounds='<= 2 inputs / outputs plus shapes with 253 (thorough: also 252 / 254) inputs or outputs, script lengths in '
                  '{0,1,2,252,253,254} with symbolic content and {65535,65536} with concrete content; every '
                  'other byte symbolic; every cut point (for the 64 KiB shapes: every cut within 120 bytes of '
                  'either end and every 4099th in between)',
           outside='non-canonical varints, other script lengths, counts above 254',
           assumptions=['double_sha256 as an uninterpreted function (hash equality proved by congruence)'],
           witnesses=1),
    Kernel('K3', k3, k3_shapes, setup=_setup,
           desc='OnDiskBlock forward / reverse streaming with a symbolic chunk size',
           encodes=['electrumx/server/block_processor.py:OnDiskBlock.__enter__', '_read', '_read_at_pos',
                    'iter_txs', '_chunk_offsets', 'iter_txs_reversed'],
           bounds='blocks of 1..4 transactions of 60..330 bytes with the large one first / middle / last; '
                  'chunk_size any integer >= 1 (the file stub forks on size >= remaining, so every size '
                  'beyond the block is one path); tx field bytes symbolic',
           outside='blocks with more transactions; transaction counts >= 253',
           witnesses=2),
]
