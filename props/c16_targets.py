"""CrossHair targets for C16 (and C19-K2): one wrapper per protocol method of ElectrumX plus the
argument validators.  Arguments are JSON-typed unions; the session is a real ElectrumX object
(created without a transport) on a real SessionManager over a real, populated DB (real LevelDB
in a scratch directory, built once per process by the real BlockProcessor); daemon, mempool
API and name resolution are stubs.

Post-condition of every wrapper: the coroutine returns a JSON-serialisable value or raises
RPCError / ReplyAndDisconnect; any other exception escapes and is a counterexample.  On an
error reply the session's subscriptions / statuses, the manager's three caches and a second
session are unchanged.
"""
import atexit
import json
import logging
import os
import shutil
import socket
import sys
import tempfile
from typing import Dict, List, Union

sys.path.insert(0, os.path.dirname(os.path.dirname(os.path.abspath(__file__))))

from aiorpcx import RPCError, ReplyAndDisconnect   # noqa

from vlib import symx, chain   # noqa

J0 = Union[None, bool, int, float, str]
J = Union[None, bool, int, float, str, List[J0], Dict[str, J0]]

logging.disable(logging.CRITICAL)


def small(x) -> bool:
    '''The stated bound on JSON arguments: strings <= 6 chars, containers <= 2 items.'''
    if isinstance(x, str):
        return len(x) <= 6
    if isinstance(x, list):
        return len(x) <= 2 and all(small(i) for i in x)
    if isinstance(x, dict):
        return len(x) <= 2 and all(len(k) <= 6 and small(v) for k, v in x.items())
    return True


# -- the populated index (built once, natively) --------------------------------------------------

_SIM = None
GOOD = {}


def _build():
    global _SIM
    if _SIM is not None:
        return _SIM
    scratch = os.environ.get('VERIF_SCRATCH') or tempfile.gettempdir()
    os.environ['VERIF_SCRATCH'] = scratch
    eng = symx.Engine()
    eng.concrete = {}
    eng.concrete_default = True
    symx.set_engine(eng)
    sim = chain.Sim(activation=0, daemon_height=4)
    sim.open()
    specs = [{'cb': 'A'}, {'cb': 'B', 'txs': [{'ins': 1, 'outs': 'AC'}]}, {'cb': 'A', 'txs': [{'ins': 1, 'outs': 'B'},
             {'ins': 1, 'outs': 'C'}]}, {'cb': 'C'}, {'cb': 'B', 'txs': [{'ins': 1, 'outs': 'A'}]}]
    for i, sp in enumerate(specs):
        sim.advance(sim.gen_block(sp, f'b{i}'))
    sim.flush(True)
    sim.open()
    import electrumx.server.db as dbmod
    import electrumx.server.block_processor as bpmod
    import electrumx.server.session as smod

    async def inline(f, *a):
        return f(*a)
    dbmod.run_in_thread = inline
    global _MC0, _HX0
    run(sim.db.header_mc.initialize(2))
    _MC0 = (sim.db.header_mc.length, list(sim.db.header_mc.level), sim.db.header_mc.depth_higher)
    from electrumx.lib.hash import sha256, hash_to_hex_str
    shA = hash_to_hex_str(sha256(chain.SCRIPTS['A']))
    GOOD['scripthash'] = [shA, hash_to_hex_str(sha256(chain.SCRIPTS['B'])), '00' * 32]
    GOOD['tx_hash'] = [hash_to_hex_str(sim.chain[2].txs[1].hash), hash_to_hex_str(sim.chain[0].txs[0].hash), 'ab' * 32]
    GOOD['raw_tx'] = ['0100', 'zz', '']
    _HX0 = bytes(reversed(bytes.fromhex(shA)))[:11]
    _SIM = sim
    atexit.register(sim.close)
    return sim


class _Daemon:
    async def getrawtransaction(self, hex_hash, verbose=False):
        from electrumx.server.daemon import DaemonError
        if hex_hash.startswith('ab'):
            raise DaemonError({'code': -5, 'message': 'No such mempool or blockchain transaction'})
        return '0100' if not verbose else {'hex': '0100'}

    async def broadcast_transaction(self, raw_tx):
        from electrumx.server.daemon import DaemonError
        if raw_tx != '0100':
            raise DaemonError({'code': -22, 'message': 'TX decode failed'})
        return 'cd' * 32

    def cached_height(self):
        return 4


class _Addr:
    host = '8.8.8.8'
    port = 50001

    def __str__(self):
        return '8.8.8.8:50001'


def run(coro):
    try:
        while True:
            coro.send(None)
    except StopIteration as e:
        return e.value


_OBJS = None


def _make_objects():
    import electrumx.server.session as smod
    import electrumx.server.mempool as mpmod
    sim = _build()
    env = sim.env
    env.peer_discovery = env.PD_ON

    class Api(mpmod.MemPoolAPI):
        async def height(self): return 4
        def cached_height(self): return 4
        def db_height(self): return 4
        async def mempool_hashes(self): return []
        async def raw_transactions(self, h): return []
        async def lookup_utxos(self, p): return []
        async def on_mempool(self, t, h): pass
    mp = mpmod.MemPool(env.coin, Api())
    mgr = smod.SessionManager(env, sim.db, None, _Daemon(), mp, None)
    mgr.hsub_results = {'hex': '00' * 80, 'height': 4}
    out = []
    for n in range(2):
        s = smod.ElectrumX.__new__(smod.ElectrumX)
        s.session_mgr, s.db, s.mempool, s.peer_mgr = mgr, sim.db, mp, mgr.peer_mgr
        s.env, s.coin, s.kind = env, env.coin, 'TCP'
        s.bump_cost = lambda c: None
        s.logger = logging.getLogger('verif')
        s.daemon_request = mgr.daemon_request
        s.remote_address = lambda: _Addr()
        out.append(s)
    return mgr, out[0], out[1]


def mk():
    """The manager and two sessions on the shared index, reset to their initial state (the
    objects are created once, outside CrossHair's tracing; everything a handler can mutate is
    reset here on every path)."""
    global _OBJS
    if _OBJS is None:
        _OBJS = _make_objects()
    mgr, s, other = _OBJS
    sim = _build()
    from electrumx.lib.merkle import MerkleCache
    from electrumx.server.session import scripthash_to_hashX
    mc = sim.db.header_mc
    mc.length, mc.level, mc.depth_higher = _MC0
    mc.level = list(mc.level)
    for cache in (mgr._history_cache, mgr._tx_hashes_cache, mgr._merkle_cache):
        cache.clear()
    mgr._reorg_count = 0
    mgr.txs_sent = 0
    mgr.peer_mgr.peers.clear()
    mgr.peer_mgr.recent_peer_adds.clear()
    for x in (s, other):
        x.hashX_subs, x.mempool_statuses = {}, {}
        x.subscribe_headers = False
        x.sv_seen = False
        x.is_peer = False
        x.txs_sent = 0
        x.client = 'unknown'
        x.set_request_handlers(x.PROTOCOL_MIN)
    # the second session holds a subscription that nothing may disturb
    other.hashX_subs[_HX0] = GOOD['scripthash'][0]
    return mgr, s, other


_MC0 = None
_HX0 = None


def _snapshot(mgr, s, other):
    return (dict(s.hashX_subs), dict(s.mempool_statuses), s.subscribe_headers,
            sorted(map(repr, mgr._history_cache.keys())), sorted(map(repr, mgr._tx_hashes_cache.keys())),
            sorted(map(repr, mgr._merkle_cache.keys())), dict(other.hashX_subs), dict(other.mempool_statuses),
            len(mgr.peer_mgr.peers))


def call(method: str, *args):
    '''Run one protocol method; returns True iff the outcome is a clean one.'''
    mgr, s, other = mk()
    handler = s.request_handlers[method]
    before = _snapshot(mgr, s, other)
    try:
        result = run(handler(*args))
    except (RPCError, ReplyAndDisconnect):
        after = _snapshot(mgr, s, other)
        # an error reply must change nothing (caches may legitimately gain read-only entries)
        return before[:3] == after[:3] and before[6:] == after[6:]
    json.dumps(result)
    after = _snapshot(mgr, s, other)
    return before[6:8] == after[6:8]


def pick(kind: str, sel: int, x):
    '''A well-formed representative when sel selects one, else the arbitrary JSON value.'''
    good = GOOD[kind]
    if 0 <= sel < len(good):
        return good[sel]
    return x


_REAL_GETADDRINFO = None


def _patch_getaddrinfo():
    '''Name resolution stub: performs the real, offline part of getaddrinfo (argument
    encoding, which is where malformed host names fail before any I/O) and then reports a
    resolution failure.'''
    import asyncio

    class _Loop:
        async def getaddrinfo(self, host, port, **kw):
            if isinstance(host, str):
                # what socket.getaddrinfo does first (PyUnicode_AsEncodedString(host, "idna")), called
                # directly so that the pure-Python codec is executed symbolically
                import encodings.idna
                encodings.idna.Codec().encode(host)
            raise socket.gaierror(-2, 'Name or service not known')
    import electrumx.server.peers as pmod

    class _Asyncio:
        def __getattr__(self, k):
            return getattr(asyncio, k)

        @staticmethod
        def get_event_loop():
            return _Loop()
    pmod.asyncio = _Asyncio()


# -- validators -----------------------------------------------------------------------------------

def v_non_negative_integer(value: J) -> bool:
    """
    pre: small(value)
    raises: RPCError
    post: _
    """
    from electrumx.server.session import non_negative_integer
    r = non_negative_integer(value)
    return isinstance(r, int) and r >= 0


def v_scripthash_to_hashX(value: J) -> bool:
    """
    pre: small(value)
    raises: RPCError
    post: _
    """
    from electrumx.server.session import scripthash_to_hashX
    r = scripthash_to_hashX(value)
    return isinstance(r, bytes) and len(r) == 11


def v_assert_tx_hash(value: J) -> bool:
    """
    pre: small(value)
    raises: RPCError
    post: _
    """
    from electrumx.server.session import assert_tx_hash
    r = assert_tx_hash(value)
    return isinstance(r, bytes) and len(r) == 32


def v_assert_raw_bytes(value: J) -> bool:
    """
    pre: small(value)
    raises: RPCError
    post: _
    """
    from electrumx.server.session import assert_raw_bytes
    return isinstance(assert_raw_bytes(value), bytes)


def v_assert_boolean(value: J) -> bool:
    """
    pre: small(value)
    raises: RPCError
    post: _
    """
    from electrumx.server.session import assert_boolean
    return assert_boolean(value) in (True, False)


# -- protocol methods ---------------------------------------------------------------------------

def h_block_header(height: J, cp_height: J) -> bool:
    """
    pre: small(height) and small(cp_height)
    post: _
    """
    return call('blockchain.block.header', height, cp_height)


def h_block_headers(start: J, count: J, cp_height: J) -> bool:
    """
    pre: small(start) and small(count) and small(cp_height)
    post: _
    """
    return call('blockchain.block.headers', start, count, cp_height)


def h_estimatefee(number: J) -> bool:
    """
    pre: small(number)
    post: _
    """
    return call('blockchain.estimatefee', number)


def h_noarg(which: int) -> bool:
    """
    pre: 0 <= which < 9
    post: _
    """
    m = ['blockchain.headers.subscribe', 'blockchain.relayfee', 'mempool.get_fee_histogram', 'server.banner',
         'server.donation_address', 'server.features', 'server.peers.subscribe', 'server.ping',
         'server.peers.subscribe'][which]
    return call(m)


def h_scripthash(which: int, sel: int, scripthash: J) -> bool:
    """
    pre: 0 <= which < 5 and small(scripthash) and -1 <= sel < 3
    post: _
    """
    m = ['blockchain.scripthash.get_balance', 'blockchain.scripthash.get_history',
         'blockchain.scripthash.get_mempool', 'blockchain.scripthash.listunspent',
         'blockchain.scripthash.subscribe'][which]
    _build()
    return call(m, pick('scripthash', sel, scripthash))


def h_scripthash_unsubscribe(sel: int, scripthash: J) -> bool:
    """
    pre: small(scripthash) and -1 <= sel < 3
    post: _
    """
    mgr, s, other = mk()
    s.set_request_handlers((1, 4, 2))
    arg = pick('scripthash', sel, scripthash)
    try:
        r = run(s.request_handlers['blockchain.scripthash.unsubscribe'](arg))
    except RPCError:
        return True
    return r in (True, False)


def h_transaction_broadcast(sel: int, raw_tx: J) -> bool:
    """
    pre: small(raw_tx) and -1 <= sel < 3
    post: _
    """
    _build()
    return call('blockchain.transaction.broadcast', pick('raw_tx', sel, raw_tx))


def h_transaction_get(sel: int, tx_hash: J, verbose: J) -> bool:
    """
    pre: small(tx_hash) and small(verbose) and -1 <= sel < 3
    post: _
    """
    _build()
    return call('blockchain.transaction.get', pick('tx_hash', sel, tx_hash), verbose)


def h_transaction_merkle(sel: int, tx_hash: J, height: J) -> bool:
    """
    pre: small(tx_hash) and small(height) and -1 <= sel < 3
    post: _
    """
    _build()
    return call('blockchain.transaction.get_merkle', pick('tx_hash', sel, tx_hash), height)


def h_transaction_tsc_merkle(sel: int, tx_hash: J, height: J, txid_or_tx: J, target_type: J) -> bool:
    """
    pre: small(tx_hash) and small(height) and small(txid_or_tx) and small(target_type) and -1 <= sel < 3
    post: _
    """
    _build()
    return call('blockchain.transaction.get_tsc_merkle', pick('tx_hash', sel, tx_hash), height, txid_or_tx,
                target_type)


def h_transaction_id_from_pos(height: J, tx_pos: J, merkle: J) -> bool:
    """
    pre: small(height) and small(tx_pos) and small(merkle)
    post: _
    """
    return call('blockchain.transaction.id_from_pos', height, tx_pos, merkle)


def h_server_version(client_name: J, protocol_version: J) -> bool:
    """
    pre: small(client_name) and small(protocol_version)
    post: _
    """
    return call('server.version', client_name, protocol_version)


def h_add_peer(features: J) -> bool:
    """
    pre: small(features)
    post: _
    """
    _patch_getaddrinfo()
    return call('server.add_peer', features)


def h_add_peer_hosts(host: str, tcp_port: J0, ssl_port: J0, pruning: J0, protocol_max: J0) -> bool:
    """
    pre: len(host) <= 8 and small(tcp_port) and small(ssl_port) and small(pruning) and small(protocol_max)
    post: _
    """
    _patch_getaddrinfo()
    features = {'hosts': {host: {'tcp_port': tcp_port, 'ssl_port': ssl_port}}, 'pruning': pruning,
                'protocol_max': protocol_max, 'protocol_min': protocol_max}
    return call('server.add_peer', features)


def h_add_peer_host(host: str) -> bool:
    """
    pre: len(host) <= 5
    post: _
    """
    return call('server.add_peer', {'hosts': {host: {'tcp_port': 50001}}})


# -- C19-K2: Peer.peers_from_features --------------------------------------------------------------

def _hostname_ok(host: str) -> bool:
    '''Independent hostname syntax check (RFC 952/1123 letters-digits-hyphen labels).'''
    if not host or len(host) > 253:
        return False
    h = host[:-1] if host.endswith('.') else host
    labels = h.split('.')
    for lab in labels:
        if not (1 <= len(lab) <= 63):
            return False
        if lab[0] == '-' or lab[-1] == '-':
            return False
        for ch in lab:
            if not (ch.isascii() and (ch.isalnum() or ch == '-')):
                return False
    return True


def p_peers_from_features(host: str, tcp_port: J0, ssl_port: J0, extra_key: str, extra_val: J0) -> bool:
    """
    pre: len(host) <= 8 and small(tcp_port) and small(ssl_port) and len(extra_key) <= 6 and small(extra_val)
    post: _
    """
    from ipaddress import ip_address
    from electrumx.lib.peer import Peer
    features = {'hosts': {host: {'tcp_port': tcp_port, 'ssl_port': ssl_port}}, extra_key: extra_val}
    peers = Peer.peers_from_features(features, 'src')
    for p in peers:
        for port in (p.tcp_port, p.ssl_port):
            if port is not None and not (isinstance(port, int) and not isinstance(port, bool) and 0 < port < 65536):
                return False
        if p.is_public:
            try:
                ip = ip_address(p.host)
            except ValueError:
                ip = None
            if ip is not None:
                if ip.is_private or ip.is_multicast or ip.is_unspecified or ip.is_loopback or ip.is_link_local:
                    return False
            elif not _hostname_ok(p.host) or p.host == 'localhost':
                return False
        p.to_tuple()
        p.serialize()
    return True


def p_features_any(features: J) -> bool:
    """
    pre: small(features)
    post: _
    """
    from electrumx.lib.peer import Peer
    for p in Peer.peers_from_features(features, 'src'):
        p.to_tuple()
    return True


TARGETS = {
    'C16': ['v_non_negative_integer', 'v_scripthash_to_hashX', 'v_assert_tx_hash', 'v_assert_raw_bytes',
            'v_assert_boolean', 'h_block_header', 'h_block_headers', 'h_estimatefee', 'h_noarg', 'h_scripthash',
            'h_scripthash_unsubscribe', 'h_transaction_broadcast', 'h_transaction_get', 'h_transaction_merkle',
            'h_transaction_tsc_merkle', 'h_transaction_id_from_pos', 'h_server_version', 'h_add_peer',
            'h_add_peer_hosts', 'h_add_peer_host'],
    'C19': ['p_peers_from_features', 'p_features_any'],
}

# the index is built at import time, outside CrossHair's tracing (it uses temp files and time)
if os.environ.get('VERIF_C16_NO_BUILD') != '1':
    _build()
    _patch_getaddrinfo()
    mk()


# -- concrete adversarial corpus (a labelled complement: concrete coverage, not a solver verdict) ------

def corpus():
    '''(target, args) pairs run natively: values CrossHair does not synthesise within its budget
    (non-finite floats in every position, over-long / empty host labels, huge numbers, odd hex).'''
    inf, nan = float('inf'), float('nan')
    nums = [inf, -inf, nan, 1e308, -0.0, 2 ** 64, 10 ** 400, -1, 0.5, True, None, '1', ' 2', '1e9', '٣', [], {}, [1]]
    out = []
    for v in nums:
        out += [('h_block_header', (v, 0)), ('h_block_header', (0, v)), ('h_block_headers', (v, 1, 0)),
                ('h_block_headers', (0, v, 0)), ('h_block_headers', (0, 1, v)), ('h_estimatefee', (v,)),
                ('h_transaction_merkle', (0, None, v)), ('h_transaction_id_from_pos', (v, 0, False)),
                ('h_transaction_id_from_pos', (1, v, True)), ('h_transaction_id_from_pos', (1, 0, v)),
                ('h_transaction_tsc_merkle', (0, None, v, 'txid', 'block_hash')),
                ('h_transaction_tsc_merkle', (0, None, 2, v, v)), ('h_transaction_get', (0, None, v)),
                ('h_server_version', (v, v)), ('h_server_version', ('x', [v, v])), ('h_add_peer', (v,)),
                ('h_add_peer_hosts', ('a.com', v, v, v, v))]
    strs = ['', 'zz', 'a' * 63, '0' * 63, 'ab' * 33, '00' * 32 + '0', '\udc80', 'é' * 32, '0x' + '00' * 31, ' ' * 64]
    for sv in strs:
        out += [('h_scripthash', (w, -1, sv)) for w in range(5)]
        out += [('h_scripthash_unsubscribe', (-1, sv)), ('h_transaction_broadcast', (-1, sv)),
                ('h_transaction_get', (-1, sv, False)), ('h_transaction_merkle', (-1, sv, 1))]
    hosts = ['a' * 64 + '.com', 'a..b.com', '.', '..', '.a', 'a.', 'xn--a', 'é.com', 'a' * 300, 'foo.onion', '1.2.3.4',
             '::1', '[::1]', 'localhost', 'a b', '-a.com', '*.com', 'a\x00b', '１２７.0.0.1', '0x7f.1', '256.1.1.1']
    for h in hosts:
        out.append(('h_add_peer_host', (h,)))
        out.append(('h_add_peer_hosts', (h, 50001, '50002', None, '1.4')))
    return out
