"""C12 - merkle branches, roots and the incremental cache agree with the definition.

K1  Merkle.branch_length on a symbolic integer n in [1, 2^62]: one obligation
    2^(r-1) < n <= 2^r for every n (z3, linear integer arithmetic).
K2  branch_and_root / root / root_from_proof / level / branch_and_root_from_level with the
    hash function an uninterpreted function and every leaf 32 symbolic bytes: fold-back, root
    against a reference written from the definition, branch length, TSC form.
K3  MerkleCache: initialise / extend / truncate sequences with solver-enumerated integer
    arguments over a source of symbolic leaves; every result equals the from-scratch one.
"""
from vlib import symx
from vlib.runner import Kernel
from vlib.symx import engine, deep_eq, z3_and, z3_or, z3_implies, SInt
from vlib.world import run_coro


def _merkle_mod():
    import electrumx.lib.merkle as mm
    return mm


def _setup_uf(shape):
    if not symx.native():
        from vlib import shims
        shims.DSHA256.injective = False


# -- reference (independent of /repo) ----------------------------------------------------------

def _H():
    mm = _merkle_mod()
    return mm.double_sha256


def ref_root(leaves):
    H = _H()
    level = list(leaves)
    while len(level) > 1:
        if len(level) & 1:
            level.append(level[-1])
        level = [H(level[i] + level[i + 1]) for i in range(0, len(level), 2)]
    return level[0]


def ref_branch(leaves, index):
    '''(branch, tsc_branch, root) from the definition.'''
    H = _H()
    level = list(leaves)
    branch, tsc = [], []
    while len(level) > 1:
        dup = False
        if len(level) & 1:
            level.append(level[-1])
            dup = (index ^ 1) == len(level) - 1
        branch.append(level[index ^ 1])
        tsc.append(b'*' if dup else level[index ^ 1])
        index >>= 1
        level = [H(level[i] + level[i + 1]) for i in range(0, len(level), 2)]
    return branch, tsc, level[0]


def ref_fold(leaf, branch, index):
    H = _H()
    h = leaf
    for e in branch:
        h = H(e + h) if index & 1 else H(h + e)
        index >>= 1
    return h


def ceil_log2(n):
    r = 0
    while (1 << r) < n:
        r += 1
    return r


# -- K1 ----------------------------------------------------------------------------------------

def k1(shape):
    eng = engine()
    mm = _merkle_mod()
    n = eng.fresh_int('n', 1, 1 << 62)
    r = mm.Merkle().branch_length(n)
    symx.observe('r', r)
    if isinstance(r, int) and not isinstance(r, bool):
        # the function returned a constant on this path: it must be right for every n of the path
        terms = [n <= (1 << r)] + ([n > (1 << (r - 1))] if r > 0 else [n == 1])
        eng.prove(z3_and(terms), 'K1: branch_length(n) != ceil(log2 n)', {'signature': 'K1-branch-length'})
        return
    cases = [z3_implies(r == 0, n == 1)]
    for k in range(1, 63):
        cases.append(z3_implies(r == k, z3_and([n > (1 << (k - 1)), n <= (1 << k)])))
    cases.append(z3_and([r >= 0, r <= 62]))
    eng.prove(z3_and(cases), 'K1: branch_length(n) != ceil(log2 n)', {'signature': 'K1-branch-length'})


def k1_fallback():
    '''Concrete fallback when the implementation uses floating point (not encodable): evaluate
    the real function on the boundary values 2^k-1, 2^k, 2^k+1 for k <= 62.'''
    import importlib
    import sys
    # the real, uninstrumented function in a child interpreter
    import subprocess
    import json
    code = ('import json\nfrom electrumx.lib.merkle import Merkle\nm=Merkle()\nbad=[]\n'
            'def c(n):\n r=0\n while (1<<r)<n: r+=1\n return r\n'
            'vals=sorted({v for k in range(63) for v in (2**k-1,2**k,2**k+1) if 1<=v<=2**62})\n'
            'for v in vals:\n  if m.branch_length(v)!=c(v): bad.append(v)\n'
            'print(json.dumps({"n":len(vals),"bad":bad}))')
    p = subprocess.run([sys.executable, '-c', code], capture_output=True, text=True, cwd='/')
    res = json.loads(p.stdout.strip().splitlines()[-1])
    out = {'note': f'K1 concrete fallback (floating-point log is not encodable): real branch_length '
                   f'evaluated on {res["n"]} boundary values 2^k-1,2^k,2^k+1 (k<=62); {len(res["bad"])} wrong '
                   '- concrete coverage, not a solver verdict', 'violations': []}
    if res['bad']:
        out['violations'].append({'label': 'K1: branch_length(n) != ceil(log2 n)',
                                  'inputs': {'n': res['bad'][0], 'all_wrong': res['bad'][:30]},
                                  'detail': {'signature': 'K1-branch-length'}})
    return out


# -- K2 ----------------------------------------------------------------------------------------

def k2(shape):
    eng = engine()
    mm = _merkle_mod()
    n = shape['n']
    m = mm.Merkle()
    leaves = [eng.fresh_bytes(f'L{i}', 32) for i in range(n)]
    eng.hint_distinct(leaves)
    index = eng.fresh_word('index', 16)
    if not symx.native():
        eng.assume(index < n)
    branch, root = m.branch_and_root(leaves, index)
    idx = int(index)             # decided by the list indexing inside branch_and_root
    eng.prove(len(leaves) == n, 'K2: branch_and_root modified the list of hashes it was given',
              {'signature': 'K2-input-mutated'})
    rb, rtsc, rroot = ref_branch(leaves, idx)
    eng.prove(len(branch) == ceil_log2(n), 'K2: branch length != ceil(log2 n)', {'signature': 'K2-length'})
    eng.prove(deep_eq(root, rroot), 'K2: root != merkle root by definition', {'signature': 'K2-root'})
    eng.prove(deep_eq(list(branch), rb), 'K2: branch != branch by definition', {'signature': 'K2-branch'})
    eng.prove(deep_eq(ref_fold(leaves[idx], branch, idx), root), 'K2: branch does not fold to root',
              {'signature': 'K2-fold'})
    eng.prove(deep_eq(m.root_from_proof(leaves[idx], branch, idx), root),
              'K2: root_from_proof(branch) != root', {'signature': 'K2-root_from_proof'})
    eng.prove(deep_eq(m.root(leaves), root), 'K2: root() != branch_and_root root', {'signature': 'K2-root()'})
    tb, troot = m.branch_and_root(leaves, idx, tsc_format=True)
    eng.prove(deep_eq(troot, root), 'K2: TSC root differs', {'signature': 'K2-tsc-root'})
    eng.prove(len(tb) == len(rtsc) and all(
        (isinstance(a, bytes) and a == b'*') == (isinstance(b, bytes) and b == b'*') for a, b in zip(tb, rtsc)),
        'K2: TSC duplicate markers wrong', {'signature': 'K2-tsc-marks'})
    eng.prove(deep_eq([x for x in tb if not (isinstance(x, bytes) and x == b'*')],
                      [x for x in rtsc if not (isinstance(x, bytes) and x == b'*')]),
              'K2: TSC branch differs other than by markers', {'signature': 'K2-tsc-branch'})
    # level / branch_and_root_from_level for every depth
    for d in range(0, ceil_log2(n) + 1):
        level = m.level(leaves, d)
        size = 1 << d
        leaf_start = (idx >> d) << d
        b2, r2 = m.branch_and_root_from_level(level, leaves[leaf_start:leaf_start + size], idx, d)
        eng.prove(z3_and([deep_eq(r2, root), deep_eq(list(b2), rb)]),
                  'K2: branch_and_root_from_level differs from direct computation',
                  {'signature': 'K2-from-level', 'depth': d})
    symx.observe('idx', idx)
    symx.observe('branch_len', len(branch))
    if n > 1:
        symx.observe('branch0', branch[0])


def k2_shapes(tier):
    top = 17 if tier == 'quick' else 65
    return [{'n': n} for n in range(1, top + 1)]


# -- K3 ----------------------------------------------------------------------------------------

def k3(shape):
    eng = engine()
    mm = _merkle_mod()
    S, a, t, order = shape['S'], shape['a'], shape['t'], shape['order']
    leaves = [eng.fresh_bytes(f'L{i}', 32) for i in range(S)]
    eng.hint_distinct(leaves)
    m = mm.Merkle()
    calls = []

    inflight = {'arm': None, 'n': 0, 'fired': False}

    def do_truncate():
        cache.truncate(t)
        eng.note(f'truncate({t})')
        # what truncation is for: the source may differ above the truncation point afterwards
        # (a reorganisation replaced those hashes)
        for i in range(t, S):
            leaves[i] = eng.fresh_bytes(f'M{i}', 32)

    async def source(index, count):
        calls.append((index, count))
        assert 0 <= index and index + count <= S
        res = leaves[index:index + count]
        if inflight['arm'] is not None:
            if inflight['n'] == inflight['arm']:
                # the truncation (and the replacement of the hashes above it) happens while this read is awaited:
                # the caller gets what was read before it
                inflight['arm'] = None
                inflight['fired'] = True
                do_truncate()
            inflight['n'] += 1
        return res

    def run(c):
        if symx.native():
            import asyncio
            return asyncio.new_event_loop().run_until_complete(c)
        return run_coro(c)

    cache = mm.MerkleCache(m, source)
    run(cache.initialize(a))

    def query(tag):
        l = eng.choice(f'l{tag}', S) + 1
        i = eng.choice(f'i{tag}', l)
        branch, root = run(cache.branch_and_root(l, i))
        rb, rtsc, rroot = ref_branch(leaves[:l], i)
        eng.note(f'bar({l},{i})')
        eng.prove(z3_and([deep_eq(root, rroot), deep_eq(list(branch), rb)]),
                  'K3: MerkleCache result differs from from-scratch computation',
                  {'signature': 'K3-cache', 'order': order, 'a': a, 't': t, 'l': l, 'i': i})
        # the TSC form through the cache: same root, duplicated nodes marked
        tbranch, troot = run(cache.branch_and_root(l, i, tsc_format=True))
        star = lambda v: isinstance(v, bytes) and v == b'*'   # noqa
        marks_ok = len(tbranch) == len(rtsc) and all(star(x) == star(y) for x, y in zip(tbranch, rtsc))
        eng.prove(marks_ok and z3_and([deep_eq(troot, rroot)] +
                                      [deep_eq(x, y) for x, y in zip(tbranch, rtsc) if not star(y)]),
                  'K3: MerkleCache TSC branch differs from the from-scratch one',
                  {'signature': 'K3-cache-tsc', 'order': order, 'a': a, 't': t, 'l': l, 'i': i})
        symx.observe(f'branch{tag}', (l, i, len(branch), branch[0] if (l > 1 and (1 << cache.depth_higher) > 1 or l == 2) and False else None))

    for op in order:
        if op == 'q':
            query(len([c for c in calls]))
        elif op == 't':
            do_truncate()
        elif op == 'x':
            # a query during which (at its k-th source read, k solver-chosen) the truncation happens: its answer must
            # be the from-scratch one of the source before or after the replacement
            tag = len(calls)
            l = eng.choice(f'l{tag}', S) + 1
            i = eng.choice(f'i{tag}', l)
            before = list(leaves)
            inflight.update(arm=eng.choice('overtaken_read', 3), n=0, fired=False)
            branch, root = run(cache.branch_and_root(l, i))
            inflight['arm'] = None
            if not inflight['fired']:
                do_truncate()
            ob, _t, oroot = ref_branch(before[:l], i)
            nb, _t, nroot = ref_branch(leaves[:l], i)
            eng.note(f'inflight bar({l},{i})')
            eng.prove(z3_or([z3_and([deep_eq(root, oroot), deep_eq(list(branch), ob)]),
                             z3_and([deep_eq(root, nroot), deep_eq(list(branch), nb)])]),
                      'K3: MerkleCache result of a request overtaken by a truncation is of neither source',
                      {'signature': 'K3-cache-inflight', 'a': a, 't': t, 'l': l, 'i': i})


def k3_shapes(tier):
    out = []
    S = 6 if tier == 'quick' else 9      # sized: S = 11 ran for more than 45 minutes on 7 cores once the TSC and in-flight queries were added
    for a in range(1, S + 1):
        for t in range(1, S + 1):
            for order in ('qtq', 'tqq'):
                out.append({'S': S, 'a': a, 't': t, 'order': order})
            if (a + t) % 2 == 0:          # sized: half of the (a, t) grid in both tiers
                out.append({'S': S, 'a': a, 't': t, 'order': 'xq'})
    if tier == 'thorough':
        for a, t in ((17, 9), (20, 16), (5, 20), (18, 17)):
            out.append({'S': 21, 'a': a, 't': t, 'order': 'tq'})
            out.append({'S': 21, 'a': a, 't': t, 'order': 'qt'})
    return out


KERNELS = [
    Kernel('K1', k1, lambda tier: [{}], desc='branch_length(n) == ceil(log2 n) for every n in [1, 2^62]',
           encodes=['electrumx/lib/merkle.py:Merkle.branch_length'],
           bounds='n in [1, 2^62] (all values, one query)', outside='n > 2^62',
           concrete_fallback=k1_fallback, witnesses=1),
    Kernel('K2', k2, k2_shapes, setup=_setup_uf,
           desc='branch/root/proof/level functions on n symbolic leaves, uninterpreted hash',
           encodes=['electrumx/lib/merkle.py:Merkle.branch_and_root', 'Merkle.root', 'Merkle.root_from_proof',
                    'Merkle.level', 'Merkle.branch_and_root_from_level'],
           bounds='n <= 17 (quick) / 65 (thorough), every index (solver-enumerated at the list indexing), '
                  'every level depth; leaf contents fully symbolic',
           outside='n above the bound', witnesses=1,
           assumptions=['double_sha256 modelled as an uninterpreted function: equalities are proved by '
                        'congruence, so they hold for every hash function']),
    Kernel('K3', k3, k3_shapes, setup=_setup_uf,
           desc='MerkleCache initialise / query / truncate / query sequences against from-scratch results',
           encodes=['electrumx/lib/merkle.py:MerkleCache.initialize', '_extend_to', '_level_for', 'truncate',
                    'branch_and_root', '_leaf_start', '_segment_length'],
           bounds='source of S=6 (quick) / 9 (thorough) symbolic hashes; initial length a, truncation t in 1..S '
                  '(shapes); two queries (length, index) over all values (solver-enumerated); orders '
                  'query-truncate-query, truncate-query-query and (query overtaken by the truncation at its k-th source read, k '
                  'solver-chosen)-query; plus spot shapes with S=21 in thorough',
           outside='longer operation sequences, sources above the bound; more than one truncation during a request; '
                   'after truncate(t) the hashes at positions >= t are replaced by fresh '
                   'symbolic ones',
           witnesses=1),
]
