"""C15 - exactly the configured window of recent blocks can be undone.

k consecutive blocks are indexed by the real advance_block with the reorg limit L a symbolic
integer >= 1 and the daemon's cached height at each block a symbolic integer (non-decreasing, at
least the block's height, equal to the tip at the end: caught up); full flush; optional
pre-existing undo row at a symbolic lower height; restart (clear_excess_undo_info).  Proved for
all L and all daemon-height trajectories:
 - when caught up, undo information exists for every indexed height in (tip-L, tip];
 - after the restart none remains below tip-L+1 and the window is intact;
 - backing out blocks with the real backup_block succeeds for exactly the first min(L, k)
   blocks and the next one is refused with ChainError.
Only comparisons are involved, so the paths partition the integers by order type.
"""
from vlib import symx, chain
from vlib.runner import Kernel
from vlib.symx import engine, z3_and, z3_implies, z3_not, z3_or


def scenario(shape):
    import electrumx.server.block_processor as bpmod
    import electrumx.lib.util as util
    eng = engine()
    k = shape['k']
    L = eng.fresh_int('reorg_limit', 1, None)
    sim = chain.Sim(reorg_limit=L, activation=0, daemon_height=0)
    try:
        sim.open()
        specs = shape['blocks']
        tip = k - 1
        prev = None
        ds = []
        for i in range(k):
            if i == k - 1:
                d = tip
            else:
                d = eng.fresh_int(f'daemon_height_{i}', i, tip)
                if prev is not None and not sim.native:
                    eng.assume(d >= prev)
            if prev is not None and not sim.native and i == k - 1:
                eng.assume(prev <= tip)
            prev = d
            ds.append(d)
            sim.daemon._h = d
            blk = sim.gen_block(specs[i % len(specs)], f'b{i}')
            sim.advance(blk)
            if shape.get('flush_each'):
                sim.flush(True)
        sim.flush(True)
        db = sim.db
        for h in range(k):
            present = db.read_undo_info(h) is not None
            if not present:
                eng.prove(z3_not(h > tip - L), 'caught up: no undo information for a height inside the window',
                          {'signature': 'window-missing-before-restart', 'height': h})
        # a stale undo row left by an earlier run at a symbolic height below the chain
        g = None
        if shape.get('stale'):
            g = eng.fresh_word('stale_height', 32)
            if not sim.native:
                eng.assume(g >= k)      # e.g. left behind by blocks that were backed out earlier
            db.utxo_db.put(b'U' + util.pack_be_uint32(g), b'')
        sim.open()                                   # restart: prunes below the window
        db = sim.db
        for h in range(k):
            present = db.read_undo_info(h) is not None
            if present:
                eng.prove(z3_not(h < tip - L + 1), 'after restart undo information older than the window remains',
                          {'signature': 'stale-undo-kept', 'height': h})
            else:
                eng.prove(z3_not(h > tip - L), 'after restart undo information inside the window is missing',
                          {'signature': 'window-missing-after-restart', 'height': h})
        if g is not None:
            present = db.utxo_db.get(b'U' + util.pack_be_uint32(g)) is not None
            gi = g if isinstance(g, int) else g.to_int()
            eng.prove(present, 'restart removed an undo row that is not older than the window',
                      {'signature': 'row-above-window-removed'})
        # back out blocks one at a time: exactly min(L, k - 1) succeed (block 0 cannot be undone)
        done = 0
        refused = False
        for j in range(1, k):
            blk = sim.chain[-1]
            try:
                sim.backup(blk)
            except bpmod.ChainError:
                refused = True
                break
            sim.chain.pop()
            done += 1
            chain.check_index(sim, f'backed-{j}', check_fs=False, check_history=False)
        if refused:
            eng.prove(z3_not(done + 1 <= L), 'a reorganisation within the reorg limit is refused',
                      {'signature': 'refused-within-limit', 'depth': done + 1})
        eng.prove(done <= L, 'more blocks than the reorg limit could be undone after a restart',
                  {'signature': 'undone-beyond-limit', 'depth': done})
        symx.observe('undone', done)
        symx.observe('refused', refused)
    finally:
        sim.close()


def crash_scenario(shape):
    '''The window must also survive a crash: k blocks are indexed with the daemon already at the tip (reorg limit
    L concrete), the process dies at a symbolic durable operation, restarts and resumes; then undo information must
    exist for every height in (tip-L, tip] and exactly min(L, k-1) blocks can be backed out.'''
    import electrumx.server.block_processor as bpmod
    from vlib.world import Crash
    from props import c04
    eng = engine()
    k, L = shape['k'], shape['L']
    sim = chain.Sim(reorg_limit=L, activation=0, daemon_height=k - 1)
    try:
        sim.open()
        blocks = [sim.gen_block(shape['blocks'][i], f'b{i}') for i in range(k)]
        sim.world.durable.crash_at = eng.fresh_int('crash_at', 0, None)
        sim.world.durable.armed = True
        committed = [-1]
        flush = shape['flush']
        start = 0
        crashed = False
        while True:
            try:
                c04._drive(sim, blocks, flush, start, committed)
                break
            except Crash:
                crashed = True
                sim.world.durable.armed = False
                state = sim.open()
                start = state.height + 1
                flush = []
        sim.world.durable.armed = False
        tip = k - 1
        db = sim.db
        for h in range(k):
            if h > tip - L:
                eng.prove(db.read_undo_info(h) is not None,
                          'after a crash and resume undo information for a height inside the window is missing',
                          {'signature': 'window-missing-after-crash', 'height': h})
        done = 0
        for j in range(1, k):
            blk = sim.chain[-1]
            try:
                sim.backup(blk)
            except bpmod.ChainError:
                break
            sim.chain.pop()
            done += 1
            chain.check_index(sim, f'backed-{j}', check_fs=False, check_history=False)
        eng.prove(done == min(L, k - 1), 'after a crash and resume the blocks of the window cannot be undone (or more can)',
                  {'signature': 'window-after-crash', 'undone': done})
        symx.observe('crashed', crashed)
        symx.observe('undone', done)
    finally:
        sim.close()


def crash_shapes(tier):
    cbA = {'cb': 'A'}
    sp = {'cb': 'B', 'txs': [{'ins': 1, 'outs': 'AC'}]}
    out = [{'k': 3, 'L': 2, 'blocks': [cbA, sp, sp], 'flush': ['n', 'n', 'n']},
           {'k': 3, 'L': 2, 'blocks': [cbA, sp, sp], 'flush': ['f', 'f', 'n']}]
    if tier == 'thorough':
        out += [{'k': 3, 'L': 1, 'blocks': [cbA, sp, sp], 'flush': ['n', 'f', 'n']},
                {'k': 4, 'L': 2, 'blocks': [cbA, sp, cbA, sp], 'flush': ['n', 'h', 'f', 'n']},
                {'k': 4, 'L': 3, 'blocks': [cbA, sp, sp, sp], 'flush': ['f', 'n', 'n', 'n']}]
    return out


def shell_scenario(shape):
    '''Daemon-driven reorganisations of exactly the reorg limit through the real asynchronous shell
    (fetch_and_process_blocks, _calc_reorg_range, reorg_chain, backup_block): the server must follow them and end on
    the reference index of the new chain (the checks of C07's stories).'''
    from props import c07
    return c07.scenario(shape)


def shell_shapes(tier):
    cbA, cbB, cbC = {'cb': 'A'}, {'cb': 'B'}, {'cb': 'C'}
    sA = {'cb': 'C', 'txs': [{'ins': 1, 'outs': 'A'}]}
    sAB = {'cb': 'B', 'txs': [{'ins': 1, 'outs': 'AB'}]}
    base = {'sessions': True, 'early': False, 'deviations': 0}
    long = [cbA, cbB, cbC, sA, sAB, cbA, cbB, sA, cbC, sAB]
    pairs = [(1, 1), (2, 2), (4, 4)] if tier == 'quick' else [(1, 1), (2, 2), (3, 3), (4, 4), (5, 4), (3, 2), (8, 8)]
    out = []
    for limit, depth in pairs:
        initial = long if depth < 8 else long + long
        new = ([cbC, sA, cbB, sAB, cbA, cbC, sA, cbB, cbA])[:depth + 1]
        out.append(dict(base, reorg_limit=limit, initial=initial, script=[('block', cbB), ('reorg', depth, new)]))
    return out


def shapes(tier):
    cbA = {'cb': 'A'}
    sp = {'cb': 'B', 'txs': [{'ins': 1, 'outs': 'AC'}]}
    out = [{'k': 2, 'blocks': [cbA, sp]}, {'k': 3, 'blocks': [cbA, sp, sp]},
           {'k': 3, 'blocks': [cbA, sp, cbA], 'stale': True}]
    if tier == 'thorough':
        out += [{'k': 4, 'blocks': [cbA, sp, sp, cbA]}, {'k': 4, 'blocks': [cbA, sp, cbA, sp], 'stale': True},
                {'k': 4, 'blocks': [cbA, sp, sp, sp], 'flush_each': True},
                {'k': 5, 'blocks': [cbA, sp, cbA, sp, sp]}]
    return out


KERNELS = [
    Kernel('WINDOW', scenario, shapes,
           desc='undo window arithmetic with symbolic reorg limit and daemon-height trajectory',
           encodes=['electrumx/server/block_processor.py:BlockProcessor.advance_block', 'backup_block',
                    'electrumx/server/db.py:DB.min_undo_height', 'undo_key', 'read_undo_info', 'flush_undo_infos',
                    'clear_excess_undo_info', 'flush_utxo_db', 'flush_backup'],
           bounds='k = 2..3 (quick) / ..5 (thorough) blocks from genesis; reorg limit any integer >= 1; daemon '
                  'cached height at each block any integer in [height, tip], non-decreasing; a stale undo row at '
                  'any 32-bit height above the tip (as left by backed-out blocks); every backup depth',
           outside='longer runs (the arithmetic is per block); REORG_LIMIT <= 0 (not a sensible configuration)',
           assumptions=['LevelDB modelled by MemStore', 'meta files modelled by MemFS'],
           witnesses=2),
    Kernel('CRASHWIN', crash_scenario, crash_shapes,
           desc='the undo window after a crash at a symbolic durable operation, restart and resume',
           encodes=['electrumx/server/db.py:DB.flush_utxo_db', 'flush_undo_infos', 'clear_excess_undo_info',
                    'read_undo_info', 'electrumx/server/block_processor.py:BlockProcessor.advance_block', 'backup_block'],
           bounds='k = 3 (quick) / 3..4 (thorough) blocks indexed with the daemon already at the tip, reorg limit 2 '
                  '(thorough: 1..3), flush schedules per shape; crash point: every durable operation (symbolic integer)',
           outside='two crashes; crash during a reorganisation (C05)',
           assumptions=['as C04: batches and puts atomic, completed file writes survive', 'LevelDB modelled by MemStore'],
           witnesses=1, prescribe=('sha256',)),
    Kernel('SHELLWIN', shell_scenario, shell_shapes,
           desc='daemon-driven reorganisations exactly as deep as the reorg limit through the real asynchronous shell',
           encodes=['electrumx/server/block_processor.py:BlockProcessor._calc_reorg_range', '_reorg_hashes', 'reorg_chain',
                    'backup_block', 'advance_block', 'fetch_and_process_blocks', 'electrumx/server/db.py:DB.min_undo_height',
                    'read_undo_info', 'flush_backup'],
           bounds='(reorg limit, depth) in {(1,1), (2,2), (4,4)} (quick) plus {(3,3), (5,4), (3,2), (8,8)} (thorough) on a '
                  '11..21-block concrete chain, FIFO schedule',
           outside='other limits; schedule deviations (C03 / C07)', assumptions=['as C07'], witnesses=1),
]
