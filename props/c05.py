"""C05 - a crash in the middle of undoing blocks is recoverable.

The real asynchronous shell (fetch_and_process_blocks ... reorg_chain ... backup_block ...
flush_backup) runs against a fake daemon.  After the initial sync the daemon switches to another
branch (or an operator forces a reorg of n blocks); while the blocks are backed out the process
dies at a symbolic durable operation (the history-rollback batch or the UTXO-rollback batch of
any block, torn writes as in C04).  After the restart the daemon either stays on the new branch,
has returned to the (extended) old branch, or - forced reorg - never changed chain.  Once the
server is idle again the index must equal the reference of whatever chain the daemon is on.
"""
from vlib import symx, chain, shell
from vlib.runner import Kernel
from vlib.symx import engine
from vlib.world import Crash


def scenario(shape):
    eng = engine()
    sim = chain.Sim(reorg_limit=10, activation=shape.get('activation', 1))
    daemon = shell.FakeDaemon()
    try:
        A = []
        for i, spec in enumerate(shape['A']):
            sim.gen_block(spec, f'a{i}', chain=A)
        cont = shape['cont']
        forced = shape.get('forced')
        if forced is None:
            B = list(A[:shape['fork'] + 1])
            for i, spec in enumerate(shape['B']):
                sim.gen_block(spec, f'b{i}', chain=B)
        Aext = list(A)
        for i, spec in enumerate(shape.get('A_ext', [])):
            sim.gen_block(spec, f'x{i}', chain=Aext)
        if forced is None:
            f, a, b = shape['fork'], len(A) - 1 - shape['fork'], len(B) - 1 - shape['fork']
            assert f >= b > a >= 1 and len(Aext) > len(B), (f, a, b)
        daemon.set_chain(A)
        durable = sim.world.durable
        durable.crash_at = eng.fresh_int('crash_at', 0, None)

        def ev_reorg(sh):
            durable.armed = True
            if forced is None:
                daemon.set_chain(B)
            else:
                assert sh.bp.force_chain_reorg(forced)
                if cont == 'forced-extended':
                    daemon.set_chain(Aext)
        def tag_phase(sh):
            real = sh.sim.db.flush_backup

            def flush_backup(*a):
                durable.phase = 'flush_backup'
                try:
                    return real(*a)
                finally:
                    durable.phase = ''
            sh.sim.db.flush_backup = flush_backup
        crashed = False
        try:
            sh = shell.Shell(sim, daemon)
            sh.on_install.append(tag_phase)
            sh.run([ev_reorg])
        except Crash:
            crashed = True
            durable.armed = False
            durable.phase = ''
            hit = durable.log[-2]
            if hit[2] == 'flush_backup' and hit[:2] == ('batch', 'utxo'):
                cut = 'flush_backup: history-rollback batch committed, UTXO-rollback batch lost'
            else:
                cut = f'crash at [{hit[2] or "forward"}:{hit[0]}:{hit[1]}]'
            eng.note(f'crash at durable op {durable.log[-1][1]}: {cut}; continuation {cont}')
            if cont == 'back':
                daemon.set_chain(Aext)
            elif cont == 'forced-extended':
                daemon.set_chain(Aext)
            shell.Shell(sim, daemon).run([])
        durable.armed = False
        sim.open()
        sim.chain = list(daemon.chain)
        sig = None
        if crashed:
            sig = f'{cut}; continuation={cont}'
        chain.check_index(sim, 'final', sig_override=sig)
        symx.observe('crashed', crashed)
        symx.observe('height', sim.db.state.height)
    finally:
        sim.close()


def shapes(tier):
    cbA, cbB = {'cb': 'A'}, {'cb': 'B'}
    sp1 = {'cb': 'B', 'txs': [{'ins': 1, 'outs': 'AC'}]}
    sp1b = {'cb': 'A', 'txs': [{'ins': 1, 'outs': 'B'}]}
    spS = {'cb': 'B', 'txs': [{'ins': 1, 'outs': 'S'}]}
    out = []
    # every reorg that can happen must respect the property's proviso (index height >= twice the
    # fork depth) - also the one back from the new branch to the extended old chain after a
    # late crash: fork height f >= b > a >= 1 for a orphaned and b new blocks
    A4 = [cbA, cbB, sp1, sp1b]                       # heights 0..3
    for cont in ('stay', 'back'):
        out.append({'A': A4, 'fork': 2, 'B': [sp1b, cbA], 'A_ext': [cbB, cbA], 'cont': cont})
    out.append({'A': A4, 'forced': 1, 'A_ext': [cbB], 'cont': 'forced'})
    out.append({'A': A4, 'forced': 2, 'A_ext': [cbB], 'cont': 'forced-extended'})
    if tier == 'thorough':
        A6 = [cbA, cbB, cbA, spS, sp1b, sp1]           # heights 0..5, one symbolic script
        A6c = [cbA, cbB, cbA, sp1, sp1b, sp1]          # the same, concrete
        # sized: the 'stay' continuation on a 6-block chain (spend selectors multiply the paths), with a symbolic script or
        # with depth 3 ran for more than 15 minutes per shape (measured three times); 'stay' is covered on the 4-block chain
        out.append({'A': A6, 'fork': 3, 'B': [sp1, cbB, cbA], 'A_ext': [cbB, cbA], 'cont': 'back'})
        out.append({'A': A4, 'fork': 2, 'B': [spS, cbA], 'A_ext': [sp1, cbA], 'cont': 'back'})
        out.append({'A': A6, 'forced': 3, 'A_ext': [cbB], 'cont': 'forced'})
        out.append({'A': A6, 'forced': 1, 'A_ext': [sp1], 'cont': 'forced-extended'})
        out.append({'A': A6, 'forced': 2, 'A_ext': [], 'cont': 'forced'})
    return out


KERNELS = [
    Kernel('BACKUP-CRASH', scenario, shapes,
           desc='crash at a symbolic durable operation while the real shell backs out blocks; restart; '
                'continuation on the new branch / back on the old branch / forced reorg',
           encodes=['electrumx/server/block_processor.py:BlockProcessor.fetch_and_process_blocks',
                    'next_block_hashes', 'advance_blocks', 'advance_block', 'reorg_chain', '_reorg_hashes',
                    '_calc_reorg_range', 'backup_block', 'run_with_lock', 'on_caught_up', 'flush', 'flush_if_safe',
                    'force_chain_reorg', 'electrumx/server/db.py:DB.flush_backup', 'backup_fs', 'flush_utxo_db',
                    'open_for_sync', 'open_for_serving', 'electrumx/server/history.py:History.backup',
                    'clear_excess'],
           bounds='old chain of 3 (quick) / 4 (thorough) blocks, fork depth 1..3 or forced reorg of 1..3, new '
                  'branch one block longer; crash point: every durable operation after the reorg starts (symbolic); '
                  'one crash; continuations: stay / back on the extended old branch / forced (chain unchanged, '
                  'with and without a further block)',
           outside='two crashes, deeper forks, prefetcher and block files (FakeODB), daemon transport',
           assumptions=['LevelDB batches/puts atomic', 'LevelDB modelled by MemStore', 'meta files modelled by MemFS',
                        'daemon RPCs, block prefetch and the poll sleep replaced by stubs (vlib/shell.py)'],
           witnesses=1, prescribe=('sha256',), split_depth=8),
]
