"""C09 - the mempool tracker survives every daemon race with its index intact.

Same objects and reference world as C08, but the world may change AT EACH CALL the API stub
serves (a symbolic, solver-enumerated choice per suspension point, within a budget of changes):
nothing / a block confirms mempool transactions and the index catches up at once / the block
arrives but the index lags / the lagging index catches up / a transaction (with its descendants)
is evicted / a prepared transaction arrives / a UTXO lookup misses.  After every pass of the
refresh loop: no exception has escaped, hashXs is the exact inverse of txs, every accepted
transaction's input pairs and fee equal the reference.  Then the world is left alone and the
tracker must reach C08's exact view.
"""
import itertools

from vlib import symx, chain
from vlib.runner import Kernel
from vlib.symx import engine, deep_eq, z3_and, z3_or
from props import c08


def descendants(w, roles):
    roles = set(roles)
    changed = True
    while changed:
        changed = False
        for t in w.txs.values():
            if t.role not in roles and any(s[0] == 'mp' and s[1] in roles for s in t.ins):
                roles.add(t.role)
                changed = True
    return roles


def scenario(shape):
    eng = engine()
    w = c08.build(eng, shape)
    mpmod, api, mp = c08.install(w)
    from vlib.world import run_coro as loop_run
    budget = [shape['changes']]
    quiet = [False]
    log = []

    def confirm(roles, catch_up):
        before = dict(w.utxos)
        roles = [r for r in roles if w.txs[r] in w.mempool]
        # parents first: a block can only confirm a transaction whose mempool parents are in it too
        closed = set(roles)
        for r in list(closed):
            for s in w.txs[r].ins:
                if s[0] == 'mp' and w.txs[s[1]] in w.mempool:
                    closed.add(s[1])
        for r in sorted(closed):
            t = w.txs[r]
            for s in t.ins:
                w.utxos.pop(w.prevout(s), None)
            for pos, (c, v) in enumerate(t.outs):
                w.utxos[(t.hash, pos)] = (c, v)
                w.db_all[(t.hash, pos)] = (c, v)
        w.mempool = [t for t in w.mempool if t.role not in closed]
        w.height += 1
        if catch_up:
            w.db_height = w.height
            w.db_view = None
        elif w.db_view is None:
            w.db_view = before

    def hook(name):
        if quiet[0] or budget[0] <= 0:
            return
        present = [t.role for t in w.mempool]
        absent = [r for r in w.txs if w.txs[r] not in w.mempool and (w.txs[r].hash, 0) not in w.db_all
                  and all(s[0] != 'mp' or w.txs[s[1]] in w.mempool or (w.txs[s[1]].hash, s[2]) in w.utxos
                          for s in w.txs[r].ins)
                  and all(s[0] != 'db' or s[1] in w.utxos for s in w.txs[r].ins)]
        actions = [('nothing',)]
        if present:
            actions += [('block', present[0], True), ('block', present[0], False), ('evict', present[-1])]
        if w.db_height != w.height:
            actions.append(('catchup',))
        if absent:
            actions.append(('arrive', absent[0]))
        if name == 'lookup_utxos' and w.utxos:
            actions.append(('miss',))
        k = eng.choice(f'at_{len(log)}_{name}', len(actions))
        a = actions[k]
        log.append((name, a))
        if a[0] == 'nothing':
            return
        budget[0] -= 1
        if a[0] == 'block':
            confirm([a[1]], a[2])
        elif a[0] == 'evict':
            gone = descendants(w, [a[1]])
            w.mempool = [t for t in w.mempool if t.role not in gone]
        elif a[0] == 'catchup':
            w.db_height = w.height
            w.db_view = None
        elif a[0] == 'arrive':
            w.mempool.append(w.txs[a[1]])
        elif a[0] == 'miss':
            api.lookup_miss = set(w.utxos)
    api.hook = hook

    def invariants(label):
        inv = {}
        for h, t in mp.txs.items():
            for hX, _v in itertools.chain(t.in_pairs, t.out_pairs):
                inv.setdefault(hX, set()).add(h)
        eng.prove(inv == {k: set(v) for k, v in mp.hashXs.items()}, f'{label}: hashXs is not the inverse of txs',
                  {'signature': 'index-inverse'})
        by_hash = {t.hash: t for t in w.txs.values()}
        for h, mt in mp.txs.items():
            t = by_hash[h]
            exp_in = [(c08.hx(c), v) for c, v in c08.ref_in_pairs(w, t)]
            got_in = list(mt.in_pairs)
            eng.prove(len(got_in) == len(exp_in) and z3_and(
                [z3_and([g[0] == e[0], deep_eq(g[1], e[1])]) for g, e in zip(got_in, exp_in)]),
                f'{label}: a recorded transaction has a wrong input script hash or value',
                {'signature': 'wrong-input', 'role': t.role})
            fee = sum(v for _c, v in c08.ref_in_pairs(w, t)) - sum(v for _c, v in t.outs)
            eng.prove(z3_or([z3_and([fee >= 0, deep_eq(mt.fee, fee)]), z3_and([fee < 0, deep_eq(mt.fee, 0)])]),
                      f'{label}: a recorded transaction has a wrong fee', {'signature': 'wrong-fee', 'role': t.role})

    for r in shape['initial']:
        w.mempool.append(w.txs[r])
    steps = []
    n_race = shape['passes']

    def race_step(k):
        def f():
            invariants(f'pass{k}')
        return f
    for k in range(n_race):
        steps.append(race_step(k))

    def go_quiet():
        invariants(f'pass{n_race}')
        quiet[0] = True
        api.lookup_miss = set()
        w.db_height = w.height
        w.db_view = None
    steps.append(go_quiet)
    steps.append(lambda: None)            # one quiet refresh
    steps.append(lambda: None)            # (a second one: the first may only have re-listed after a height change)
    c08.run_refreshes(mpmod, mp, api, steps)
    eng.note('changes: ' + '; '.join(f'{n}->{a}' for n, a in log if a[0] != 'nothing'))
    invariants('quiet')
    c08.check_view(eng, w, mp, 'quiet', loop_run)
    symx.observe('final_txs', len(mp.txs))
    symx.observe('handed', len(api.handed))


def shapes(tier):
    t1 = {'ins': 1, 'outs': 'A'}
    t2 = {'ins': 1, 'outs': 'AB'}
    t3 = {'ins': 2, 'outs': 'B'}
    out = [
        {'db': 'AB', 'txs': [t2, t1], 'initial': [0, 1], 'changes': 1, 'passes': 1, 'permute': False},
        {'db': 'A', 'txs': [t2, t3], 'initial': [0], 'changes': 1, 'passes': 1, 'permute': False},
    ]
    if tier == 'thorough':
        out += [
            {'db': 'AB', 'txs': [t2, t1], 'initial': [0, 1], 'changes': 2, 'passes': 2, 'permute': False},
            {'db': 'AB', 'txs': [t2, t1, t1], 'initial': [0, 1], 'changes': 2, 'passes': 1, 'permute': False},
            {'db': 'A', 'txs': [t2, t3], 'initial': [0, 1], 'changes': 2, 'passes': 2},
        ]
    return out


KERNELS = [
    Kernel('RACE', scenario, shapes,
           desc='world changes at every API call of a refresh; invariants after every pass; exact view when quiet',
           encodes=['electrumx/server/mempool.py:MemPool._refresh_hashes', '_process_mempool', '_fetch_and_accept',
                    '_accept_transactions', 'balance_delta', 'transaction_summaries', 'unordered_UTXOs',
                    'potential_spends'],
           bounds='2..3 prepared transactions; 1 (quick) / 2 (thorough) world changes placed at any API call of 1..2 '
                  'passes of the refresh loop (solver-enumerated placement and kind); values and spend graph symbolic '
                  'as in C08; then two quiet refreshes',
           outside='more changes per refresh, reorgs of the confirmed chain during a refresh (heights only rise), '
                   'fetch batches beyond the first',
           assumptions=['daemon validity: no spends of non-existent outputs, no double spends, blocks confirm '
                        'parents with their children'],
           witnesses=1, split_depth=6),
]


from props import dblookup as _dbl   # noqa: E402  (the real DB.lookup_utxos behind the mempool; shared with C08)
KERNELS.append(_dbl.KERNEL)
