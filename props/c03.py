"""C03 - after any reorganisation the index equals a fresh index of the surviving chain.

K1  undo is the inverse, and re-advancing on the other branch gives the fresh index: symbolic
    chain (as C01) with an enumerated flush schedule; then, exactly as reorg_chain does, a full
    flush and d calls of the real backup_block (read_undo_info, spend_utxo, History.backup,
    flush_backup, backup_fs); the index must equal the reference of the shortened chain; then
    new-branch blocks (symbolic, may spend anything unspent on the surviving chain, including
    outputs that the orphaned blocks had spent) are advanced and flushed and the index must equal
    the reference of the surviving chain - also after a restart.
K2  fork-point arithmetic: the real _calc_reorg_range against two chains that share a prefix of
    symbolic length f: start == f+1 and count == h-f for every fork depth 1..D with h >= 2D; and
    for forced reorgs of a symbolic count.
"""
import itertools

from vlib import symx, chain
from vlib.runner import Kernel
from vlib.symx import engine, deep_eq, z3_and, z3_not, z3_or, z3_implies, SBool, SInt


def k1(shape):
    eng = engine()
    sim = chain.Sim(reorg_limit=shape.get('reorg_limit', 10), daemon_height=shape.get('daemon_height', 5))
    sim.collide = {frozenset(p) for p in shape.get('collide', [])}
    try:
        sim.open()
        for bi, (bspec, fl) in enumerate(zip(shape['blocks'], shape['flush'])):
            blk = sim.gen_block(bspec, f'a{bi}')
            sim.advance(blk)
            if fl == 'h':
                sim.flush(False)
            elif fl == 'f':
                sim.flush(True)
        sim.flush(True)                      # reorg_chain: await self.flush(True)
        if shape.get('restart_before'):
            sim.open()
        for _ in range(shape['depth']):
            blk = sim.chain[-1]
            sim.backup(blk)
            sim.unspend(blk)
            sim.chain.pop()
        chain.check_index(sim, 'backed-up', check_fs=False)
        for bi, bspec in enumerate(shape['new']):
            blk = sim.gen_block(bspec, f'n{bi}')
            sim.advance(blk)
        sim.flush(True)
        chain.check_index(sim, 'final')
        if shape.get('reopen'):
            sim.open()
            chain.check_index(sim, 'reopened', check_fs=False)
    finally:
        sim.close()


def k1_shapes(tier):
    cbA, cbS, cbB = {'cb': 'A'}, {'cb': 'S'}, {'cb': 'B'}
    sp1 = {'cb': 'B', 'txs': [{'ins': 1, 'outs': 'S'}]}
    sp1A = {'cb': 'B', 'txs': [{'ins': 1, 'outs': 'A'}]}
    sp1C = {'cb': 'A', 'txs': [{'ins': 1, 'outs': 'CB'}]}
    sp2 = {'cb': 'A', 'txs': [{'ins': 2, 'outs': 'SB'}]}
    sp2c = {'cb': 'A', 'txs': [{'ins': 2, 'outs': 'CB'}]}
    out = []
    # (blocks on the old branch, depth, new-branch blocks); quick: one symbolic script per scenario
    base = [
        ([cbA, sp1], 1, [sp1A, cbA]),            # symbolic output created on the orphaned block
        ([cbS, sp1A], 1, [sp1C]),                # symbolic output spent on the orphaned block, re-spent
        ([cbA, sp1A, sp1C], 2, [sp1, cbA]),      # depth 2, symbolic output on the new branch
    ]
    if tier == 'thorough':
        base += [
            ([{'cb': 'AB'}, sp1A, sp1C], 2, [sp2, cbA]),
            ([cbA, cbB, sp2c], 1, [sp1]),
            ([{'cb': 'AS'}, sp2], 1, [sp2c]),
            ([cbS, sp1A], 1, [sp1]),
            ([{'cb': 'AB'}, sp1, sp2c], 2, [sp1A, sp1C, cbA]),
            ([{'cb': 'AS'}, sp1A, sp1C, cbA], 3, [sp2c, sp1A, cbA, cbA]),
            ([cbA, {'cb': 'A', 'txs': [{'ins': 1, 'outs': 'AB'}, {'ins': 1, 'outs': 'S'}]}], 1,
             [{'cb': 'B', 'txs': [{'ins': 1, 'outs': 'C'}, {'ins': 1, 'outs': 'A'}]}]),
            ([{'cb': 'RS'}, {'cb': 'F', 'txs': [{'ins': 1, 'outs': 'OA'}]}], 1,
             [{'cb': 'O', 'txs': [{'ins': 1, 'outs': 'Z'}]}]),
        ]
    for li, (blocks, depth, new) in enumerate(base):
        n = len(blocks)
        scheds = list(itertools.product('nhf', repeat=n - 1))
        if tier == 'quick':
            scheds = scheds if n == 2 else [s for s in scheds if 'h' in s][:3]
        elif li >= 3:
            # thorough-only scenarios: one or two schedules each (the full product ran for more than an hour on 10 cores,
            # two each for more than 70 minutes on 7)
            scheds = [scheds[(li * 2) % len(scheds)]] if li % 2 else [scheds[(li * 2) % len(scheds)], scheds[(li * 2 + 4) % len(scheds)]]
        for i, s in enumerate(scheds):
            out.append({'blocks': blocks, 'flush': list(s) + ['n'], 'depth': depth, 'new': new,
                        'reopen': i % 2 == 0, 'restart_before': i % 3 == 1})
    # the fork is exactly as deep as the reorg limit and every block was indexed while the daemon was already at
    # the tip (multi-block catch-up): the undo window must reach down to tip - limit + 1
    for blocks, depth, new in (base[:7] if tier == 'thorough' else base[1:3]):
        n = len(blocks)
        out.append({'blocks': blocks, 'flush': ['n'] * (n - 1) + ['n'], 'depth': depth, 'new': new, 'reopen': True,
                    'restart_before': depth == 1, 'reorg_limit': depth, 'daemon_height': n - 1})
    if tier == 'thorough':
        out.append({'blocks': [cbA, cbB, sp1], 'flush': ['n', 'f', 'n'], 'depth': 1, 'new': [sp1],
                    'collide': [['a0t0', 'a1t0'], ['a0t0', 'n0t1']], 'reopen': True})
    return out


# -- K2 ----------------------------------------------------------------------------------------

class HH:
    '''A block hash of chain `side` at height x; hashes of the two chains agree up to f.'''
    __slots__ = ('x', 'side', 'f')

    def __init__(self, x, side, f):
        self.x, self.side, self.f = x, side, f

    def __eq__(self, o):
        if self.x != o.x:
            return False
        if self.side == o.side:
            return True
        r = self.x <= self.f
        return r

    def __ne__(self, o):
        r = self.__eq__(o)
        if isinstance(r, SBool):
            return ~r
        return not r

    def __hash__(self):
        return 0


def k2(shape):
    import electrumx.server.block_processor as bpmod
    eng = engine()
    h, D = shape['h'], shape['D']
    bp = bpmod.BlockProcessor.__new__(bpmod.BlockProcessor)

    class St:
        height = h
    bp.state = St()
    saved = bpmod.hash_to_hex_str
    bpmod.hash_to_hex_str = lambda x: x          # formatting stub: compare hashes, not hex strings
    try:
        if shape['kind'] == 'natural':
            f = eng.fresh_int('f', h - D, h - 1)     # highest common height

            class DB:
                async def fs_block_hashes(self, start, count):
                    assert start >= 0 and start + count <= h + 1, (start, count)
                    return [HH(x, 'ours', f) for x in range(start, start + count)]

            class Daemon:
                async def block_hex_hashes(self, first, count):
                    return [HH(x, 'daemon', f) for x in range(first, first + count)]
            bp.db, bp.daemon = DB(), Daemon()
            start, count = chain.run(bp._calc_reorg_range(-1))
            eng.prove(z3_and([deep_eq(start, f + 1), deep_eq(count, h - f)]),
                      'K2: reorg range is not exactly the blocks above the fork point',
                      {'signature': 'K2-range', 'h': h})
            symx.observe('range', (start, count))
        else:
            n = eng.fresh_int('n', 0, h + 1)
            start, count = chain.run(bp._calc_reorg_range(n))
            eng.prove(z3_and([deep_eq(start, h - n + 1), deep_eq(count, n)]),
                      'K2: forced reorg range wrong', {'signature': 'K2-forced', 'h': h})
            symx.observe('range', (start, count))
    finally:
        bpmod.hash_to_hex_str = saved


def k2_shapes(tier):
    D = 8 if tier == 'quick' else 32
    hs = [2 * D, 2 * D + 1, 3 * D - 1, 4 * D, 4 * D + 3, 100] if tier == 'quick' else \
        [2 * D, 2 * D + 1, 2 * D + 2, 3 * D - 1, 3 * D, 4 * D - 1, 4 * D, 4 * D + 1, 127, 128, 129, 200, 255, 256, 1000]
    out = [{'kind': 'natural', 'h': h, 'D': D} for h in hs]
    out += [{'kind': 'natural', 'h': h, 'D': h // 2} for h in (2, 3, 4, 5, 6, 7, 9, 11, 13)]
    out += [{'kind': 'forced', 'h': h, 'D': 0} for h in (5, 100)]
    return out


# -- K3: the full asynchronous system with the real prefetcher and block files -----------------------

def k3(shape):
    from props import c07
    return c07.scenario(shape)


def k3_shapes(tier):
    cbA, cbB, cbC = {'cb': 'A'}, {'cb': 'B'}, {'cb': 'C'}
    sA = {'cb': 'C', 'txs': [{'ins': 1, 'outs': 'A'}]}
    sAB = {'cb': 'B', 'txs': [{'ins': 1, 'outs': 'AB'}]}
    s2 = {'cb': 'A', 'txs': [{'ins': 2, 'outs': 'C'}]}
    base = {'real_odb': True, 'sessions': True, 'early': False}
    out = [
        # a deep reorg: the orphaned blocks are no longer in the block-file cache and are fetched again
        dict(base, deviations=0, initial=[cbA, cbB, cbC, sA, sAB, cbA, s2, sA, sAB, cbB, s2, sA, sAB],
             script=[('reorg', 6, [cbC, sAB, sA, s2, cbA, sAB, sA])]),
        # the same with a new branch that spends nothing: every output restored by the undo stays observable
        dict(base, deviations=0, initial=[cbA, cbB, cbC, sA, sAB, cbA, s2, sA, sAB, cbB, s2, sA, sAB],
             script=[('reorg', 6, [cbC, cbB, cbA, cbC, cbB, cbA, cbC])]),
        # shallow reorgs with the real prefetcher under schedule deviations
        dict(base, deviations=1, initial=[cbA, cbB, sA, sAB, s2], script=[('block', sA), ('reorg', 2, [cbC, sAB, s2])]),
        dict(base, deviations=1, initial=[cbA, cbB, sA, sAB, s2], script=[('force_reorg', 2), ('block', sA)]),
    ]
    # the reorg is exactly as deep as the reorg limit, right after a multi-block catch-up (every block was indexed
    # with the daemon already at the tip) and again after one more block
    out += [dict(base, deviations=0, reorg_limit=2, initial=[cbA, cbB, sA, sAB, s2], script=[('reorg', 2, [cbC, sAB, s2])]),
            dict(base, deviations=0, reorg_limit=3, initial=[cbA, cbB, sA, sAB, s2, cbC],
                 script=[('block', sA), ('reorg', 3, [cbC, sAB, cbA]), ('reorg', 3, [sA, cbB, s2, cbA])])]
    # blocks that span several read chunks (chunk size scaled from 25 MB to 150 / 90 bytes): the backed-out blocks hold
    # several spending transactions in different chunks, prevouts of different owners and values
    s3 = {'cb': 'C', 'txs': [{'ins': 1, 'outs': 'A'}, {'ins': 1, 'outs': 'B'}, {'ins': 1, 'outs': 'AC'}]}
    out += [dict(base, deviations=0, chunk_size=150, initial=[cbA, cbB, cbC, cbA, sAB, s3], script=[('reorg', 2, [cbC, sA, s2])]),
            dict(base, deviations=0, chunk_size=90, initial=[cbA, cbB, cbC, cbA, cbB, s3, s3], script=[('reorg', 2, [cbC, cbB, cbA])])]
    if tier == 'thorough':
        out += [
            dict(base, deviations=1, initial=[cbA, cbB, cbC, sA, sAB, cbA, s2, sA, sAB, cbB, s2, sA, sAB],
                 script=[('reorg', 6, [cbC, sAB, sA, s2, cbA, sAB, sA]), ('reorg', 1, [sA, cbB])]),
            dict(base, deviations=2, window=10, initial=[cbA, cbB, sA, sAB, s2], script=[('block', sA), ('reorg', 2, [cbC, sAB, s2])]),
            dict(base, deviations=0, initial=[cbA, cbB, cbC, sA, sAB, cbA, s2, sA, sAB, cbB, s2, sA, sAB, cbA, s2],
                 script=[('force_reorg', 7), ('block', sA)]),
        ]
    return out


KERNELS = [
    Kernel('K3', k3, k3_shapes,
           desc='reorganisations through the full asynchronous system with the REAL OnDiskBlock: prefetcher, block files, '
                'parser, block-file cache and its eviction',
           encodes=['electrumx/server/block_processor.py:OnDiskBlock.prefetch_many', 'streamed_block', 'delete_blocks',
                    'delete_stale', 'scan_files', 'iter_txs', 'iter_txs_reversed', '_chunk_offsets', '__enter__',
                    'BlockProcessor.reorg_chain', '_reorg_hashes', '_calc_reorg_range', 'next_block_hashes',
                    'advance_blocks', 'backup_block', 'fetch_and_process_blocks'],
           bounds='a reorg of depth 6 on a 13-block chain (orphaned blocks beyond the 5-block file cache are fetched '
                  'again), reorgs of depth 2 natural / forced with 1 (quick) / 2 (thorough) schedule deviations, a forced '
                  'reorg of 7; two stories with reorgs exactly as deep as the reorg limit (2, 3) after a multi-block catch-up; '
                  'two stories with the read chunk scaled down to 150 / 90 bytes (blocks span several chunks); transactions are really serialised, ids are their real double SHA-256',
           outside='chain content is concrete here (K1 carries the symbolic content); more deviations',
           assumptions=['daemon RPCs (including get_block, which writes the block file), sleeps and worker threads are '
                        'stubs (vlib/fullsim.py)', 'LevelDB modelled by MemStore, files by MemFS (symbolic mode)'],
           witnesses=1, split_depth=1),
    Kernel('K1', k1, k1_shapes,
           desc='flush, back up d blocks with the real backup_block, advance the other branch; index vs reference',
           encodes=['electrumx/server/block_processor.py:BlockProcessor.backup_block', 'advance_block', 'spend_utxo',
                    'electrumx/server/db.py:DB.flush_backup', 'backup_fs', 'read_undo_info', 'flush_utxo_db',
                    'assert_flushed', 'electrumx/server/history.py:History.backup', 'flush',
                    'electrumx/lib/merkle.py:MerkleCache.truncate'],
           bounds='old branch of 2..4 blocks, fork depth 1..3, new branch of 1..4 blocks; symbolic content as '
                  'C01-K3 (new-branch transactions may spend any output unspent on the surviving chain); flush '
                  'schedule before the reorg enumerated; restart before / after enumerated',
           outside='deeper forks (K2 carries the depth arithmetic), the asynchronous shell reorg_chain (prefetch, '
                   'locking) which C06 exercises',
           assumptions=['LevelDB modelled by MemStore', 'meta files modelled by MemFS'],
           witnesses=1, prescribe=('sha256',), split_depth=14),
    Kernel('K2', k2, k2_shapes, native=False,
           desc='_calc_reorg_range against a symbolic fork point',
           encodes=['electrumx/server/block_processor.py:BlockProcessor._calc_reorg_range'],
           bounds='index height h from the listed values, fork depth any value in 1..D (symbolic) with D = 8 '
                  '(quick) / 32 (thorough) and h >= 2D (the property\'s proviso), plus every depth <= h/2 for '
                  'h <= 13; forced count any integer in [0, h+1]',
           outside='other heights h (the doubling look-back depends on h only through start > 0)',
           assumptions=['hash equality at height x modelled as x <= f (two chains sharing a prefix)',
                        'hash_to_hex_str replaced by the identity (formatting)'],
           witnesses=0),
]
