"""C04 - a crash at any point while indexing forward loses nothing that was committed.

The crash point is a symbolic integer over the durable operations of the run: every physical
file write of flush_fs, the history batch, the UTXO batch, the direct state put, and (second
crash, thorough) the batches of the recovery itself.  Operation number c does not complete: a
batch or put is dropped whole, an in-flight file write leaves ARBITRARY bytes (fresh symbolic
bytes - a superset of every torn prefix) in the written range; completed operations survive
(process death, not power loss).  Then the volatile state is discarded, the real open_for_sync
runs on the durable image, and - for all values of the garbage bytes - the database must open,
report a height between the last completed full flush and the block being processed, equal the
reference at that height in every observable, and, after the same chain is resumed, equal the
reference of the whole chain.
"""
import itertools

from vlib import symx, chain
from vlib.runner import Kernel
from vlib.symx import engine, deep_eq, z3_and
from vlib.world import Crash


def _drive(sim, blocks, flush, start, committed):
    '''Advance blocks[start:], flushing per schedule; committed[0] tracks the height of the
    last full flush that returned.  A schedule entry is a string of steps taken after the block:
    n nothing, h history-only flush, f full flush, r clean restart, s re-open for serving as at the first catch-up (both only directly after an f: the state is read
    back from disk).'''
    for bi in range(start, len(blocks)):
        sim.advance(blocks[bi])
        for fl in (flush[bi] if bi < len(flush) else 'n'):
            if fl == 'h':
                sim.flush(False)
            elif fl == 'f':
                sim.flush(True)
                committed[0] = bi
            elif fl == 'r':
                sim.open()
            elif fl == 's':
                # first catch-up: the databases are closed and re-opened for serving, the block processor carries on
                chain.run(sim.db.open_for_serving())
    sim.flush(True)
    committed[0] = len(blocks) - 1


def scenario(shape):
    eng = engine()
    sim = chain.Sim(reorg_limit=10, daemon_height=5, activation=shape.get('activation', 1))
    sim.world.small_files = shape.get('small_files', False)
    try:
        sim.open()
        blocks = [sim.gen_block(b, f'b{i}') for i, b in enumerate(shape['blocks'])]
        sim.world.durable.crash_at = eng.fresh_int('crash_at', 0, None)
        sim.world.durable.armed = True
        committed = [-1]
        crashes = 0
        start = 0
        while True:
            try:
                _drive(sim, blocks, shape['flush'], start, committed)
                break
            except Crash:
                crashes += 1
                eng.note(f'crash #{crashes} at durable op {sim.world.durable.log[-1][1]} '
                         f'({sim.world.durable.log[-2][0]} {sim.world.durable.log[-2][1]})')
                sim.world.durable.armed = False
                if crashes < shape.get('crashes', 1):
                    # a second crash, during recovery or later
                    sim.world.durable.crash_at = eng.fresh_int('crash_at2', sim.world.durable.count, None)
                    sim.world.durable.armed = True
                try:
                    state = sim.open()                  # restart: recovery runs here
                except Crash:
                    crashes += 1
                    eng.note('second crash during recovery')
                    sim.world.durable.armed = False
                    state = sim.open()
                h = state.height
                eng.prove(isinstance(h, int), 'stored height is not a concrete committed value',
                          {'signature': 'height-symbolic'})
                eng.prove(committed[0] <= h <= len(blocks) - 1,
                          'after restart the stored height is below the last completed full flush',
                          {'signature': 'lost-committed-height', 'stored': h, 'committed': committed[0]})
                symx.observe(f'restart{crashes}.height', h)
                all_outs = [o for b in blocks for tx in b.txs for o in tx.outs]
                try:
                    chain.check_index(sim, f'restart{crashes}', upto=h, query_outs=all_outs)
                except chain.ReaderSpins as e:
                    eng.prove(False, 'after restart a reader spins on transactions beyond the stored height',
                              {'signature': 'reader-spins', 'message': str(e)})
                start = h + 1
                # resume with a different schedule than before the crash: one full flush at the end
                shape = dict(shape, flush=[])
        if crashes == 0:
            # only the uninterrupted run reaches this point with crashes == 0; it is the
            # reference run (checked in C01); nothing more to prove here
            pass
        sim.world.durable.armed = False          # a second crash point beyond the run never fires
        chain.check_index(sim, 'resumed' if crashes else 'uninterrupted')
        if crashes and len(blocks) > 1:
            # the undo information is part of what was committed: the top block can still be backed out
            top = sim.chain[-1]
            sim.backup(top)
            sim.unspend(top)
            sim.chain.pop()
            chain.check_index(sim, 'resumed-then-backed-out', check_fs=False)
        symx.observe('crashes', crashes)
    finally:
        sim.close()


def shapes(tier):
    cbA = {'cb': 'A'}
    sp1 = {'cb': 'B', 'txs': [{'ins': 1, 'outs': 'S'}]}
    sp1A = {'cb': 'B', 'txs': [{'ins': 1, 'outs': 'AC'}]}
    sp1b = {'cb': 'A', 'txs': [{'ins': 1, 'outs': 'B'}]}
    sp2 = {'cb': 'A', 'txs': [{'ins': 1, 'outs': 'B'}, {'ins': 1, 'outs': 'C'}]}
    out = []
    for blocks in ([cbA, sp1A], [cbA, sp1]):
        for s in 'nhf':
            if tier == 'quick' and blocks[1] is sp1 and s == 'n':
                continue
            out.append({'blocks': blocks, 'flush': [s, 'n'], 'crashes': 1})
    # three blocks: several history-only flushes may be ahead of the UTXO flush when the crash comes
    three = [('h', 'h'), ('h', 'f')] if tier == 'quick' else list(itertools.product('nhf', repeat=2))
    for s in three:
        out.append({'blocks': [cbA, sp1A, sp1b], 'flush': list(s) + ['n'], 'crashes': 1})
    # a full flush right after a history-only flush (its history part is empty), a clean restart, then more blocks
    out.append({'blocks': [cbA, sp1A, sp1b], 'flush': ['hfr', 'n', 'n'], 'crashes': 1})
    out.append({'blocks': [cbA, sp1A, sp1b], 'flush': ['hfs', 'h', 'n'], 'crashes': 1})
    if tier == 'thorough':
        out.append({'blocks': [cbA, sp1A, sp1b], 'flush': ['hfr', 'h', 'n'], 'crashes': 1})
        out.append({'blocks': [cbA, sp1A, sp2], 'flush': ['n', 'hfr', 'h'], 'crashes': 1})
        out.append({'blocks': [cbA, sp1A, sp1b], 'flush': ['fr', 'hfr', 'n'], 'crashes': 1})
    # flat files split into physical files of two records: one logical write becomes several physical writes, each a
    # crash point of its own
    out.append({'blocks': [cbA, sp1A, sp1b], 'flush': ['f', 'n', 'n'], 'crashes': 1, 'small_files': True})
    if tier == 'thorough':
        out.append({'blocks': [cbA, sp1A, sp2], 'flush': ['h', 'n', 'n'], 'crashes': 1, 'small_files': True})
        out.append({'blocks': [cbA, sp1A, sp1b], 'flush': ['f', 'h', 'n'], 'crashes': 2, 'small_files': True})
        for s in itertools.product('nhf', repeat=2):
            out.append({'blocks': [cbA, sp1A, sp2], 'flush': list(s) + ['n'], 'crashes': 1})
        for s in (('h', 'h'), ('n', 'f'), ('f', 'h')):
            out.append({'blocks': [cbA, sp1, sp1b], 'flush': list(s) + ['n'], 'crashes': 1})
        out.append({'blocks': [cbA, sp1A], 'flush': ['h', 'n'], 'crashes': 2})
        out.append({'blocks': [cbA, sp1A], 'flush': ['f', 'n'], 'crashes': 2})
        out.append({'blocks': [cbA, sp1A, sp1b], 'flush': ['h', 'h', 'n'], 'crashes': 2})
    return out


KERNELS = [
    Kernel('CRASH', scenario, shapes,
           desc='symbolic crash point over the durable operations of advance/flush runs, torn writes as '
                'arbitrary bytes, restart through the real open_for_sync, resume',
           encodes=['electrumx/server/db.py:DB.flush_dbs', 'flush_fs', 'flush_history', 'flush_utxo_db',
                    'write_utxo_state', '_open_dbs', 'read_utxo_state', '_read_tx_counts',
                    'clear_excess_undo_info', 'electrumx/server/history.py:History.flush', 'open_db', 'read_state',
                    'clear_excess', 'electrumx/lib/util.py:LogicalFile.write', 'LogicalFile.read',
                    'electrumx/server/block_processor.py:BlockProcessor.advance_block', 'flush'],
           bounds='chains of 2 (quick) / 3 (thorough) blocks, flush schedule enumerated (none / history-only / '
                  'full after each block, also a full flush directly after a history-only one and clean restarts in between, final '
                  'full flush); crash point: every durable operation (symbolic '
                  'integer); one crash (quick), two crashes incl. during recovery (thorough); garbage of a torn '
                  'write: arbitrary bytes; one symbolic script, symbolic tx-hash prefixes and values; one shape (thorough: '
                  'three) with the flat files split into physical files of two records (a logical write = several '
                  'physical writes)',
           outside='power loss (un-fsynced meta files vs synced batches), LevelDB-internal recovery, crashes during '
                   'the very first database creation, RocksDB',
           assumptions=['LevelDB write_batch(transaction=True, sync=True) and single puts are atomic',
                        'a completed file write survives process death',
                        'LevelDB modelled by MemStore', 'meta files modelled by MemFS'],
           witnesses=2, prescribe=('sha256',), split_depth=10),
]


def batch_config(shape):
    '''Concrete companion (not a solver verdict): the atomicity that the crash model ASSUMES of a
    batch is what the code asks LevelDB for.  The real storage class of the configured engine is
    opened in a scratch directory; a batch that is abandoned by an exception must leave nothing
    behind, a completed one everything (and a reopened database must still have it).'''
    import os
    import shutil
    import tempfile
    from electrumx.server.storage import db_class
    eng = engine()
    d = tempfile.mkdtemp(prefix='verif-c04-', dir=os.environ.get('VERIF_SCRATCH'))
    cwd = os.getcwd()
    try:
        os.chdir(d)
        cls = db_class('leveldb')
        db = cls('probe', True)

        class Boom(Exception):
            pass
        try:
            with db.write_batch() as b:
                b.put(b'k1', b'v1')
                b.put(b'k2', b'v2')
                raise Boom()
        except Boom:
            pass
        eng.prove(db.get(b'k1') is None and db.get(b'k2') is None,
                  'an abandoned write batch was (partly) written: batches are not configured to be atomic',
                  {'signature': 'batch-not-atomic'})
        with db.write_batch() as b:
            b.put(b'k3', b'v3')
            b.delete(b'k1')
        db.close()
        db = cls('probe', False)
        eng.prove(db.get(b'k3') == b'v3' and [k for k, _v in db.iterator(prefix=b'k')] == [b'k3'],
                  'a completed write batch is not durable / iteration is wrong', {'signature': 'batch-lost'})
        db.close()
        symx.observe('ok', True)
    finally:
        os.chdir(cwd)
        shutil.rmtree(d, ignore_errors=True)


KERNELS.append(
    Kernel('BATCHCFG', batch_config, lambda tier: [{}],
           desc='concrete companion: the real LevelDB storage class gives all-or-nothing, durable batches',
           encodes=['electrumx/server/storage.py:LevelDB.open', 'db_class', 'Storage.__init__'],
           bounds='one abandoned and one completed batch on a real LevelDB (concrete; not a solver verdict)', outside='-',
           witnesses=1))
