"""symx - bounded symbolic execution of real Python code on proxy values over z3.

CPython runs the unmodified functions of /repo; the values they compute on are proxies whose
operators build z3 terms.  A branch on a symbolic condition (``SBool.__bool__``) asks the
solver which sides are feasible under the current path condition and follows one; the other is
explored later by re-running the scenario from the start with the recorded decision prefix
(decision-prefix depth-first search).  At the end of a path the harness states its property as
a z3 term and ``prove`` asks the solver for ``pc AND NOT property``: ``unsat`` discharges the
obligation for *every* value of the symbolic inputs that takes this path, ``sat`` yields a model
(a concrete counterexample), ``unknown`` is inconclusive.

Nothing here knows about ElectrumX.
"""
import itertools
import struct
import time

import z3

__all__ = [
    'Engine', 'SBool', 'SInt', 'SWord', 'SBytes', 'SByteArray', 'Abort', 'Unencodable',
    'Violation', 'engine', 'set_engine', 'is_sym', 'as_z3_bool', 'deep_eq', 'concretize',
]


class Abort(BaseException):
    '''The current path is abandoned (infeasible / budget / unencodable).  BaseException so
    that ``except Exception`` clauses in the code under test do not swallow it.'''
    def __init__(self, kind, msg=''):
        super().__init__(kind, msg)
        self.kind = kind
        self.msg = msg


class Unencodable(Abort):
    def __init__(self, msg):
        super().__init__('unencodable', msg)


class Violation(BaseException):
    '''Raised by prove() when the solver finds a counterexample; ends the path.'''
    def __init__(self, label, model_inputs, detail=None):
        super().__init__(label)
        self.label = label
        self.inputs = model_inputs
        self.detail = detail


_ENGINE = None


def engine():
    return _ENGINE


def set_engine(e):
    global _ENGINE
    _ENGINE = e


class Stats:
    def __init__(self):
        self.paths = 0            # scenario executions started
        self.complete = 0         # paths that ran to the end of the scenario
        self.aborted = {}         # kind -> count (infeasible, budget, unencodable, ...)
        self.forked_paths = 0     # complete paths that took >= 1 two-sided decision
        self.decisions = 0
        self.queries = 0
        self.solver_s = 0.0
        self.obligations = 0
        self.discharged = 0
        self.inconclusive = 0
        self.violations = []      # list of dicts
        self.samples = []
        self.max_depth = 0

    def merge(self, o):
        self.paths += o.paths
        self.complete += o.complete
        for k, v in o.aborted.items():
            self.aborted[k] = self.aborted.get(k, 0) + v
        self.forked_paths += o.forked_paths
        self.decisions += o.decisions
        self.queries += o.queries
        self.solver_s += o.solver_s
        self.obligations += o.obligations
        self.discharged += o.discharged
        self.inconclusive += o.inconclusive
        self.violations += o.violations
        self.samples += o.samples
        self.max_depth = max(self.max_depth, o.max_depth)

    def as_dict(self):
        return dict(self.__dict__)


class Engine:
    '''Decision-prefix DFS over the feasible paths of a scenario function.'''

    def __init__(self, *, query_timeout_ms=30000, max_paths=None, time_limit=None,
                 max_decisions=5000, keep_samples=3, stop_on_violation=False, max_violations=6):
        self.solver = z3.Solver()
        self.solver.set('timeout', query_timeout_ms)
        self.max_paths = max_paths
        self.time_limit = time_limit
        self.max_decisions = max_decisions
        self.keep_samples = keep_samples
        self.stop_on_violation = stop_on_violation
        self.max_violations = max_violations
        self.stats = Stats()
        self.inputs = {}          # name -> (kind, z3 term(s)) registered by fresh_*
        self.trace = []           # decisions of the current path: [value, other_side_open]
        self.prefix = []
        self.model = None
        self.depth = 0
        self.labels = []          # human-readable notes of the current path
        self._fresh = itertools.count()
        self.truncated = False    # exploration stopped early (max_paths / time_limit)
        self.concrete = None      # dict name->value in native/replay mode (no solver)
        self.path_local = {}      # per-path scratch (hash memo tables, ...)
        self.hash_outputs = []    # per-path (name, input, output) of modelled hashes
        self.assumptions_used = set()
        self.prescribed_hashes = None
        self.prescribe = set()    # names of modelled hashes whose model values are replayed natively
        self.concrete_default = False   # native mode: invent deterministic values for unnamed inputs
        self.cross_check = 0      # number of discharged obligations to dump for a second solver
        self.cross_dumps = []
        import os as _os
        self.fork_sites = {} if _os.environ.get('VERIF_FORK_SITES') else None
        self.split_depth = None   # frontier mode: stop every path at this many decisions
        self.frontier = []        # decision prefixes recorded in frontier mode

    # -- solver plumbing -------------------------------------------------------------
    def _check(self, *extra):
        t = time.perf_counter()
        r = self.solver.check(*extra)
        self.stats.solver_s += time.perf_counter() - t
        self.stats.queries += 1
        if r == z3.sat:
            self.model = self.solver.model()
        return r

    def _holds_in_model(self, cond):
        if self.model is None:
            return None
        try:
            v = self.model.eval(cond, model_completion=True)
        except z3.Z3Exception:
            return None
        if z3.is_true(v):
            return True
        if z3.is_false(v):
            return False
        return None

    def _push(self, cond):
        self.solver.push()
        self.solver.add(cond)
        self.depth += 1

    def assume(self, cond):
        '''Add a precondition to the path condition.  Infeasible => path aborted.'''
        cond = as_z3_bool(cond)
        cond = z3.simplify(cond)
        if z3.is_true(cond):
            return
        self._push(cond)
        if z3.is_false(cond):
            raise Abort('infeasible')
        m = self._holds_in_model(cond)
        if m is not True:
            r = self._check()
            if r == z3.unsat:
                raise Abort('infeasible')
            if r != z3.sat:
                raise Abort('unknown', 'assume')

    def replay_payload(self):
        '''Payload stored with the next decision when it is being replayed, else None.'''
        i = len(self.trace)
        if i < len(self.prefix) and len(self.prefix[i]) > 2:
            return self.prefix[i][2]
        return None

    def decide(self, cond, payload=None):
        '''Branch on a z3 Bool.  payload: model-dependent data that must be identical when
        the decision is replayed (see _enumerate_int).'''
        memo = self.path_local.get('decided')
        if memo is not None:
            r = memo.get(cond.get_id())
            if r is not None:
                return r
        raw = cond
        raw_id = cond.get_id()
        cond = z3.simplify(cond)
        if z3.is_true(cond):
            return True
        if z3.is_false(cond):
            return False
        # the same condition decided again on the same path has the same value: no solver call
        memo = self.path_local.setdefault('decided', {})
        cid = cond.get_id()
        if cid in memo:
            return memo[cid]
        r = self._decide(cond, payload)
        memo[cid] = r
        memo[raw_id] = r
        neg = z3.simplify(z3.Not(cond))
        memo[neg.get_id()] = not r
        # AST ids are only unique among live terms: keep every memoised term alive for the path
        self.path_local.setdefault('keepalive', []).extend((cond, raw, neg))
        return r

    def _decide(self, cond, payload):
        i = len(self.trace)
        if i >= self.max_decisions:
            raise Abort('budget', 'max_decisions')
        if i < len(self.prefix):
            d = self.prefix[i]
            if d[0] == 'E':
                raise RuntimeError('non-deterministic scenario: decision kinds differ between runs')
            if len(d) > 3 and d[3] is not None and d[3] != cond.hash():
                raise RuntimeError('non-deterministic scenario: a replayed decision has a different condition')
            self.trace.append(d)
            self._push(cond if d[0] else z3.Not(cond))
            self.model = None
            return d[0]
        if self.split_depth is not None and i >= self.split_depth:
            self._split()
        self.stats.decisions += 1
        m = self._holds_in_model(cond)
        ncond = z3.Not(cond)
        if m is True:
            t_ok = True
            r = self._check_side(ncond)
            f_ok = r
        elif m is False:
            f_ok = True
            t_ok = self._check_side(cond)
        else:
            t_ok = self._check_side(cond)
            f_ok = self._check_side(ncond)
        if t_ok and f_ok:
            if self.fork_sites is not None:
                self._note_site()
            self.trace.append([True, True, payload, cond.hash()])
            self._push(cond)
            if self._holds_in_model(cond) is not True:
                self.model = None
            return True
        if t_ok:
            self.trace.append([True, False, payload, cond.hash()])
            self._push(cond)
            return True
        if f_ok:
            self.trace.append([False, False, payload, cond.hash()])
            self._push(ncond)
            return False
        raise Abort('infeasible')

    def _check_side(self, c):
        saved = self.model
        r = self._check(c)
        if r == z3.sat:
            return True
        self.model = saved
        if r == z3.unsat:
            return False
        raise Abort('unknown', 'decide')

    def _split(self):
        self.frontier.append([[d[0], False] + list(d[2:]) for d in self.trace])   # fingerprints kept
        raise Abort('split')

    def _note_site(self):
        import sys
        f = sys._getframe(2)
        chain = []
        while f is not None and len(chain) < 4:
            fn = f.f_code.co_filename
            if not fn.endswith('symx.py'):
                chain.append(f'{fn.rsplit("/", 1)[-1]}:{f.f_lineno}')
            f = f.f_back
        k = ' < '.join(chain)
        self.fork_sites[k] = self.fork_sites.get(k, 0) + 1

    # -- obligations --------------------------------------------------------------
    def prove(self, prop, label, detail=None):
        '''Obligation: under the current path condition, prop holds for all inputs.'''
        st = self.stats
        st.obligations += 1
        if self.concrete is not None:
            ok = bool(prop)
            if ok:
                st.discharged += 1
                return True
            raise Violation(label, dict(self.concrete), detail)
        prop = as_z3_bool(prop)
        neg = z3.simplify(z3.Not(prop))
        if z3.is_false(neg):
            st.discharged += 1
            return True
        r = self._check(neg)
        if r == z3.unsat:
            st.discharged += 1
            if self.cross_check and len(self.cross_dumps) < self.cross_check:
                # keep the query for re-decision by a second solver (vlib/runner.py)
                try:
                    self.cross_dumps.append('(set-logic ALL)\n' + self.solver.sexpr() +
                                            f'\n(assert {neg.sexpr()})\n(check-sat)\n')
                except Exception:   # noqa
                    pass
            return True
        if r == z3.sat:
            raise Violation(label, self.model_inputs(self.model), detail)
        st.inconclusive += 1
        return None

    def reachable(self):
        '''Model of the current path condition (witness that the path is non-vacuous).'''
        if self.concrete is not None:
            return dict(self.concrete)
        hint = self.path_local.get('witness_hint')
        if hint:
            saved = self.model
            r = self._check(*hint)        # prefer a generic witness (e.g. pairwise distinct inputs)
            if r == z3.sat:
                return self.model_inputs(self.model)
            self.model = saved
        r = self._check()
        if r != z3.sat:
            return None
        return self.model_inputs(self.model)

    def witness_hint(self, *terms):
        if self.concrete is None:
            self.path_local.setdefault('witness_hint', []).extend(as_z3_bool(t) for t in terms)

    def hint_distinct(self, values):
        '''Witness preference: the given SBytes / numbers pairwise different.'''
        if self.concrete is not None:
            return
        vals = list(values)
        for i in range(len(vals)):
            for j in range(i + 1, len(vals)):
                t = deep_eq(vals[i], vals[j])
                if t is True:
                    continue
                if t is not False:
                    self.witness_hint(z3.Not(t))

    def model_inputs(self, model):
        out = {}
        for name, (kind, term) in self.inputs.items():
            if kind == 'bytes':
                v = model.eval(term, model_completion=True)
                n = term.size() // 8
                out[name] = {'bytes': v.as_long().to_bytes(n, 'big').hex()}
            elif kind == 'word':
                out[name] = model.eval(term, model_completion=True).as_long()
            elif kind == 'sword':
                out[name] = model.eval(term, model_completion=True).as_signed_long()
            elif kind == 'int':
                out[name] = model.eval(term, model_completion=True).as_long()
            elif kind == 'bool':
                out[name] = bool(z3.is_true(model.eval(term, model_completion=True)))
            elif kind == 'real':
                v = model.eval(term, model_completion=True)
                out[name] = {'real': [v.numerator_as_long(), v.denominator_as_long()]}
        if self.prescribe:
            hs = []
            for hname, x, o in self.hash_outputs:
                if hname in self.prescribe:
                    hs.append([hname, concretize(x, model).hex(), concretize(o, model).hex()])
            if hs:
                out['__hashes__'] = hs
        return out

    # -- symbolic inputs ------------------------------------------------------------
    def _register(self, name, kind, term):
        if name in self.inputs:
            return self.inputs[name][1]
        self.inputs[name] = (kind, term)
        return term

    def _default(self, name, nbytes):
        import hashlib
        out = b''
        k = 0
        while len(out) < nbytes:
            out += hashlib.sha256(f'{name}/{k}'.encode()).digest()
            k += 1
        return out[:nbytes]

    def fresh_bytes(self, name, n):
        if self.concrete is not None:
            if n == 0:
                return b''
            if name not in self.concrete and self.concrete_default:
                return self._default(name, n)
            v = self.concrete[name]
            return bytes.fromhex(v['bytes'])
        if n == 0:
            return SBytes([])
        t = self._register(name, 'bytes', z3.BitVec(name, 8 * n))
        return bytes_of_term(t, n)

    def fresh_word(self, name, bits, signed=False):
        if self.concrete is not None:
            if name not in self.concrete and self.concrete_default:
                return int.from_bytes(self._default(name, 4), 'big') % (1 << min(bits - 1, 40))
            return int(self.concrete[name])
        t = self._register(name, 'sword' if signed else 'word', z3.BitVec(name, bits))
        return SWord(t, signed)

    def fresh_int(self, name, lo=None, hi=None):
        if self.concrete is not None:
            return int(self.concrete[name])
        t = self._register(name, 'int', z3.Int(name))
        x = SInt(t)
        if lo is not None:
            self.assume(t >= lo)
        if hi is not None:
            self.assume(t <= hi)
        return x

    def fresh_bool(self, name):
        if self.concrete is not None:
            return bool(self.concrete[name])
        t = self._register(name, 'bool', z3.Bool(name))
        return SBool(t)

    def fresh_real(self, name):
        if self.concrete is not None:
            from fractions import Fraction
            n, d = self.concrete[name]['real']
            return Fraction(n, d)
        t = self._register(name, 'real', z3.Real(name))
        return SInt(t)

    def choice(self, name, n):
        '''A symbolic choice in range(n), decided immediately (returns a native int).'''
        if self.concrete is not None:
            if name not in self.concrete and self.concrete_default:
                return 0
            return int(self.concrete[name])
        t = self._register(name, 'int', z3.Int(name))
        self.assume(z3.And(t >= 0, t < n))
        return _enumerate_int(t, name)

    def anon(self, sort_bits=8, tag='u'):
        return z3.BitVec(f'_{tag}{next(self._fresh)}', sort_bits)

    def note(self, s):
        self.labels.append(s)

    # -- exploration ---------------------------------------------------------------
    def _reset_path(self):
        while self.depth:
            self.solver.pop()
            self.depth -= 1
        self.trace = []
        self.model = None
        self.labels = []
        self.path_local = {}
        self.hash_outputs = []

    def explore(self, scenario, on_path=None, forced=None):
        '''Run scenario() along every feasible path (below the forced decision prefix, if
        given: those decisions are replayed and never flipped).  Returns Stats.'''
        st = self.stats
        t0 = time.time()
        self.prefix = [list(d) for d in forced] if forced else []
        set_engine(self)
        while True:
            self._reset_path()
            st.paths += 1
            outcome = None
            try:
                scenario()
                st.complete += 1
                outcome = 'complete'
                if any(d[1] or i < len(self.prefix) for i, d in enumerate(self.trace)):
                    st.forked_paths += 1
                if len(st.samples) < self.keep_samples:
                    w = self.reachable()
                    st.samples.append({'decisions': ''.join(('T' if d[0] else 'F') if d[0] != 'E' else f'[{d[3]}]'
                                                            for d in self.trace)[:200],
                                       'notes': list(self.labels)[:20], 'witness_inputs': _short(w)})
            except Violation as v:
                outcome = 'violation'
                st.violations.append({'label': v.label, 'inputs': v.inputs, 'detail': v.detail,
                                      'notes': list(self.labels)[:40]})
            except Exception as e:   # noqa - escaped from the code under test
                if not _raised_in_repo(e):
                    raise
                outcome = 'violation'
                w = self.reachable()
                st.violations.append({'label': f'exception:{type(e).__name__}', 'inputs': w,
                                      'detail': {'signature': f'exception:{type(e).__name__}',
                                                 'message': str(e)[:300], 'where': _where(e)},
                                      'notes': list(self.labels)[:40]})
            except Abort as a:
                outcome = a.kind
                st.aborted[a.kind] = st.aborted.get(a.kind, 0) + 1
                if a.kind in ('unencodable', 'unknown', 'budget') and len(st.samples) < self.keep_samples + 3:
                    st.samples.append({'aborted': a.kind, 'msg': str(a.msg)[:300]})
            st.max_depth = max(st.max_depth, len(self.trace))
            if on_path:
                on_path(outcome)
            if outcome == 'violation' and (self.stop_on_violation or len(st.violations) >= self.max_violations):
                self.truncated = True
                break
            tr = self.trace
            while tr and not tr[-1][1]:
                tr.pop()
            if not tr:
                break
            d = tr.pop()
            if d[0] == 'E':
                tr.append(['E', None, d[2] + [d[3]], None] + d[4:])
            else:
                tr.append([not d[0], False] + d[2:])
            self.prefix = [list(x) for x in tr]
            if self.max_paths and st.paths >= self.max_paths:
                self.truncated = True
                break
            if self.time_limit and time.time() - t0 > self.time_limit:
                self.truncated = True
                break
        self._reset_path()
        return st

    def run_concrete(self, scenario, inputs):
        '''Native mode: run the scenario once on concrete inputs (no proxies, no solver).'''
        self.concrete = dict(inputs)
        set_engine(self)
        try:
            scenario()
            return None
        except Violation as v:
            return v
        except Exception as e:   # noqa
            if not _raised_in_repo(e):
                raise
            return Violation(f'exception:{type(e).__name__}', dict(self.concrete),
                             {'signature': f'exception:{type(e).__name__}', 'message': str(e)[:300],
                              'where': _where(e)})


import os as _os2
REPO_PREFIX = _os2.environ.get('VERIF_REPO', '/repo').rstrip('/') + '/'


def _raised_in_repo(e):
    '''True if the exception passed through a frame of the code under test.'''
    tb = e.__traceback__
    while tb is not None:
        if tb.tb_frame.f_code.co_filename.startswith(REPO_PREFIX):
            return True
        tb = tb.tb_next
    return False


def _where(e):
    tb = e.__traceback__
    last = None
    while tb is not None:
        if tb.tb_frame.f_code.co_filename.startswith(REPO_PREFIX):
            last = f'{tb.tb_frame.f_code.co_filename[len(REPO_PREFIX):]}:{tb.tb_frame.f_code.co_name}'
        tb = tb.tb_next
    return last


def _short(w):
    if w is None:
        return None
    out = {}
    for k, v in list(w.items())[:16]:
        if isinstance(v, dict) and 'bytes' in v and len(v['bytes']) > 24:
            v = {'bytes': v['bytes'][:20] + '...', 'len': len(v['bytes']) // 2}
        out[k] = v
    return out


# ---------------------------------------------------------------------------------------------
# proxies
# ---------------------------------------------------------------------------------------------

def is_sym(x):
    return isinstance(x, (SBool, SInt, SWord)) or (isinstance(x, SBytes) and not x.is_concrete())


def as_z3_bool(x):
    if isinstance(x, SBool):
        return x.e
    if isinstance(x, bool):
        return z3.BoolVal(x)
    if z3.is_expr(x):
        return x
    if isinstance(x, (SWord, SInt)):
        return (x != 0).e
    return z3.BoolVal(bool(x))


class SBool:
    __slots__ = ('e',)

    def __init__(self, e):
        self.e = e

    def __bool__(self):
        return _ENGINE.decide(self.e)

    def __and__(self, o):
        return SBool(z3.And(self.e, as_z3_bool(o)))
    __rand__ = __and__

    def __or__(self, o):
        return SBool(z3.Or(self.e, as_z3_bool(o)))
    __ror__ = __or__

    def __invert__(self):
        return SBool(z3.Not(self.e))

    def __eq__(self, o):
        return SBool(self.e == as_z3_bool(o))

    def __ne__(self, o):
        return SBool(self.e != as_z3_bool(o))

    def __hash__(self):
        return 0

    # bool is an int in Python: arithmetic on a symbolic bool forks to 0 / 1
    def __int__(self):
        return 1 if bool(self) else 0

    __index__ = __int__

    def __add__(self, o): return int(self) + o
    def __radd__(self, o): return o + int(self)
    def __sub__(self, o): return int(self) - o
    def __rsub__(self, o): return o - int(self)
    def __mul__(self, o): return int(self) * o
    def __rmul__(self, o): return o * int(self)
    def __neg__(self): return -int(self)

    def __repr__(self):
        return f'SBool({z3.simplify(self.e)})'


def _bool(e):
    e = z3.simplify(e)
    if z3.is_true(e):
        return True
    if z3.is_false(e):
        return False
    return SBool(e)


def _enumerate_int(term, what):
    '''Return a native int equal to term on this path, forking over its feasible values.'''
    eng = _ENGINE
    s = z3.simplify(term)
    if z3.is_int_value(s) or z3.is_bv_value(s):
        return s.as_long()
    known = eng.path_local.setdefault('known_values', {})
    kid = s.get_id()
    if kid in known:
        return known[kid]
    r = _enumerate_int2(eng, s, what)
    known[kid] = r
    eng.path_local.setdefault('keepalive', []).append(s)
    return r


def known_value(x):
    '''Native int if the proxy's value has already been decided on this path, else None.'''
    if isinstance(x, int):
        return x
    s = z3.simplify(x.e)
    if z3.is_int_value(s) or z3.is_bv_value(s):
        return s.as_long()
    return _ENGINE.path_local.get('known_values', {}).get(s.get_id())


def _enumerate_int2(eng, term, what):
    """n-ary decision: pick a feasible value of term, remember the values already tried."""
    i = len(eng.trace)
    tried = []
    if i < len(eng.prefix):
        d = eng.prefix[i]
        if d[0] != 'E':
            raise RuntimeError('non-deterministic scenario: decision kinds differ between runs')
        if len(d) > 4 and d[4] != term.hash():
            raise RuntimeError('non-deterministic scenario: a replayed enumeration has a different term')
        if d[3] is not None:
            eng.trace.append(d)
            eng._push(term == _num(term, d[3]))
            eng.model = None
            return d[3]
        tried = d[2]
    else:
        if i >= eng.max_decisions:
            raise Abort('budget', 'max_decisions')
        if eng.split_depth is not None and i >= eng.split_depth:
            eng._split()
    eng.stats.decisions += 1
    excl = [term != _num(term, t) for t in tried]
    if len(tried) > 4096:
        raise Unencodable(f'unbounded enumeration of {what}')
    v = None
    if not tried and eng.model is not None:
        mv = eng.model.eval(term, model_completion=True)
        if z3.is_int_value(mv) or z3.is_bv_value(mv):
            v = mv.as_long()
    if v is None:
        r = eng._check(*excl)
        if r == z3.unsat:
            raise Abort('infeasible')
        if r != z3.sat:
            raise Abort('unknown', 'enumerate')
        v = eng.model.eval(term, model_completion=True).as_long()
    saved = eng.model
    r = eng._check(*excl, term != _num(term, v))
    if r == z3.sat:
        more = True
    elif r == z3.unsat:
        more = False
    else:
        raise Abort('unknown', 'enumerate')
    eng.model = saved
    eng.trace.append(['E', more, list(tried), v, term.hash()])
    eng._push(term == _num(term, v))
    if eng._holds_in_model(term == _num(term, v)) is not True:
        eng.model = None
    return v


def _num(term, v):
    return z3.BitVecVal(v, term.size()) if z3.is_bv(term) else z3.IntVal(v)


import re as _re
_FILENAME_SPEC = _re.compile(r'^0\d+d$')


class SInt:
    '''Mathematical integer (z3 Int) or real (z3 Real) term.'''
    __slots__ = ('e',)

    def __init__(self, e):
        self.e = e

    @staticmethod
    def _o(o):
        if isinstance(o, SInt):
            return o.e
        if isinstance(o, SWord):
            return o.to_int().e
        if isinstance(o, bool):
            return z3.IntVal(int(o))
        if isinstance(o, int):
            return z3.IntVal(o)
        if isinstance(o, float):
            if o != o or o in (float('inf'), float('-inf')):
                raise Unencodable('non-finite float')
            from fractions import Fraction
            f = Fraction(o)
            return z3.RealVal(f'{f.numerator}/{f.denominator}')
        try:
            from fractions import Fraction
            if isinstance(o, Fraction):
                return z3.RealVal(f'{o.numerator}/{o.denominator}')
        except Exception:
            pass
        return None

    def _bin(self, o, f):
        oe = self._o(o)
        if oe is None:
            return NotImplemented
        return SInt(z3.simplify(f(self.e, oe)))

    def _cmp(self, o, f, op=None):
        if op is not None and type(o) is int:
            cache = _ENGINE.path_local.setdefault('cmpcache', {})
            key = (self.e.get_id(), op, o)
            r = cache.get(key)
            if r is None:
                r = cache[key] = (_bool(f(self.e, z3.IntVal(o))), self.e)
            return r[0]
        oe = self._o(o)
        if oe is None:
            return NotImplemented
        return _bool(f(self.e, oe))

    def __add__(self, o): return self._bin(o, lambda a, b: a + b)
    def __radd__(self, o): return self._bin(o, lambda a, b: b + a)
    def __sub__(self, o): return self._bin(o, lambda a, b: a - b)
    def __rsub__(self, o): return self._bin(o, lambda a, b: b - a)
    def __neg__(self): return SInt(-self.e)
    def __pos__(self): return self

    def __mul__(self, o):
        return self._bin(o, lambda a, b: a * b)
    __rmul__ = __mul__

    def __floordiv__(self, o):
        if isinstance(o, int) and o > 0 and self.e.is_int():
            return SInt(z3.simplify(self.e / o))       # z3 Int division is floor for positive divisors
        raise Unencodable('symbolic floordiv')

    def __mod__(self, o):
        if isinstance(o, int) and o > 0 and self.e.is_int():
            return SInt(z3.simplify(self.e % o))
        raise Unencodable('symbolic mod')

    def __divmod__(self, o):
        return self // o, self % o

    def __truediv__(self, o):
        oe = self._o(o)
        if oe is None:
            return NotImplemented
        return SInt(z3.simplify(z3.ToReal(self.e) / z3.ToReal(oe) if self.e.is_int() else self.e / oe))

    def __lshift__(self, k):
        if isinstance(k, int):
            return SInt(z3.simplify(self.e * (1 << k)))
        raise Unencodable('symbolic shift amount')

    def __rshift__(self, k):
        if isinstance(k, int):
            return SInt(z3.simplify(self.e / (1 << k)))
        raise Unencodable('symbolic shift amount')

    # bit operations on a mathematical integer: its value is enumerated (solver-chosen) first
    def __xor__(self, o): return int(self) ^ int(o)
    __rxor__ = __xor__
    def __and__(self, o): return int(self) & int(o)
    __rand__ = __and__
    def __or__(self, o): return int(self) | int(o)
    __ror__ = __or__

    def __eq__(self, o):
        r = self._cmp(o, lambda a, b: a == b)
        return False if r is NotImplemented else r

    def __ne__(self, o):
        r = self._cmp(o, lambda a, b: a != b)
        return True if r is NotImplemented else r

    def __lt__(self, o): return self._cmp(o, lambda a, b: a < b, '<')
    def __le__(self, o): return self._cmp(o, lambda a, b: a <= b, '<=')
    def __gt__(self, o): return self._cmp(o, lambda a, b: a > b, '>')
    def __ge__(self, o): return self._cmp(o, lambda a, b: a >= b, '>=')

    def __bool__(self):
        return bool(self != 0)

    def __hash__(self):
        return 0

    def __abs__(self):
        return SInt(z3.simplify(z3.If(self.e >= 0, self.e, -self.e)))

    def __index__(self):
        return _enumerate_int(self.e, 'SInt.__index__')

    __int__ = __index__

    def bit_length(self):
        a = abs(self).e
        _ENGINE.assume(a < (1 << 80))
        return SInt(z3.simplify(z3.Sum([z3.If(a >= (1 << k), 1, 0) for k in range(80)])))

    def __format__(self, spec):
        # zero-padded decimal formats build file names (LogicalFile): the value is decided first;
        # every other format only occurs in log / error texts, where a placeholder will do
        if not _FILENAME_SPEC.match(spec):
            return f'<sym:{spec}>'
        return format(int(self), spec)

    def __repr__(self):
        return f'SInt({z3.simplify(self.e)})'


class SWord:
    '''Fixed-width machine integer (z3 BitVec) as read from / written to byte strings.'''
    __slots__ = ('e', 'signed')

    def __init__(self, e, signed=False):
        self.e = e
        self.signed = signed

    @property
    def bits(self):
        return self.e.size()

    def to_int(self):
        if self.signed:
            n = self.e.size()
            u = z3.BV2Int(self.e)
            return SInt(z3.If(z3.Extract(n - 1, n - 1, self.e) == 1, u - (1 << n), u))
        return SInt(z3.BV2Int(self.e))

    def _pair(self, o):
        '''Bring self and o to a common width; return (a, b, signed) or None.'''
        if isinstance(o, SWord):
            a, b = self.e, o.e
            wa, wb = a.size(), b.size()
            signed = self.signed or o.signed
            w = max(wa, wb) + (1 if self.signed != o.signed else 0)
            a = _ext(a, w, self.signed)
            b = _ext(b, w, o.signed)
            return a, b, signed
        if isinstance(o, bool):
            o = int(o)
        if isinstance(o, int):
            w = self.e.size()
            lo, hi = (-(1 << (w - 1)), (1 << (w - 1)) - 1) if self.signed else (0, (1 << w) - 1)
            if lo <= o <= hi:
                return self.e, z3.BitVecVal(o, w), self.signed
            return _OUT, (o < lo), None
        return None

    def _cmp(self, o, uf, sf, below, above):
        if isinstance(o, SInt):
            return getattr(self.to_int(), sf)(o)
        p = self._pair(o)
        if p is None:
            return NotImplemented
        if p[0] is _OUT:
            return below if p[1] else above      # o is below / above our whole range
        a, b, signed = p
        return _bool(uf(a, b, signed))

    def __eq__(self, o):
        if isinstance(o, SInt):
            return self.to_int() == o
        p = self._pair(o)
        if p is None or p[0] is _OUT:
            return False
        return _bool(p[0] == p[1])

    def __ne__(self, o):
        r = self.__eq__(o)
        if isinstance(r, SBool):
            return _bool(z3.Not(r.e))
        return not r

    def __lt__(self, o):
        return self._cmp(o, lambda a, b, s: (a < b) if s else z3.ULT(a, b), '__lt__', False, True)

    def __le__(self, o):
        return self._cmp(o, lambda a, b, s: (a <= b) if s else z3.ULE(a, b), '__le__', False, True)

    def __gt__(self, o):
        return self._cmp(o, lambda a, b, s: (a > b) if s else z3.UGT(a, b), '__gt__', True, False)

    def __ge__(self, o):
        return self._cmp(o, lambda a, b, s: (a >= b) if s else z3.UGE(a, b), '__ge__', True, False)

    def __bool__(self):
        return bool(self != 0)

    def __hash__(self):
        return 0

    # bit operations stay in the bit-vector theory
    def _bit(self, o, f):
        if isinstance(o, int) and not isinstance(o, bool) and o >= 0 and not self.signed:
            w = max(self.e.size(), o.bit_length())
            return SWord(z3.simplify(f(_ext(self.e, w, False), z3.BitVecVal(o, w))))
        if isinstance(o, SWord) and not o.signed and not self.signed:
            w = max(self.e.size(), o.e.size())
            return SWord(z3.simplify(f(_ext(self.e, w, False), _ext(o.e, w, False))))
        raise Unencodable('bit operation on signed/unknown operand')

    def __and__(self, o): return self._bit(o, lambda a, b: a & b)
    __rand__ = __and__
    def __or__(self, o): return self._bit(o, lambda a, b: a | b)
    __ror__ = __or__
    def __xor__(self, o): return self._bit(o, lambda a, b: a ^ b)
    __rxor__ = __xor__

    def __rshift__(self, k):
        if isinstance(k, int) and not self.signed:
            if k >= self.e.size():
                return 0
            return SWord(z3.simplify(z3.LShR(self.e, k)))
        raise Unencodable('shift')

    def __lshift__(self, k):
        if isinstance(k, int) and not self.signed:
            w = self.e.size() + k
            return SWord(z3.simplify(_ext(self.e, w, False) << k))
        raise Unencodable('shift')

    # arithmetic leaves the bit-vector theory (Python ints do not wrap)
    def __add__(self, o): return self.to_int() + o
    def __radd__(self, o): return o + self.to_int()
    def __sub__(self, o): return self.to_int() - o
    def __rsub__(self, o): return o - self.to_int()
    def __mul__(self, o): return self.to_int() * o
    __rmul__ = __mul__
    def __floordiv__(self, o): return self.to_int() // o
    def __mod__(self, o): return self.to_int() % o
    def __neg__(self): return -self.to_int()

    def __index__(self):
        if self.signed:
            return _enumerate_int(self.to_int().e, 'SWord.__index__')
        return _enumerate_int(self.e, 'SWord.__index__')

    __int__ = __index__

    def bit_length(self):
        if self.signed:
            return self.to_int().bit_length()
        n = self.e.size()
        t = z3.IntVal(0)
        for k in range(n):
            t = z3.If(z3.Extract(k, k, self.e) == 1, z3.IntVal(k + 1), t)
        return SInt(z3.simplify(t))

    def __format__(self, spec):
        if not _FILENAME_SPEC.match(spec):
            return f'<sym:{spec}>'
        return format(int(self), spec)

    def __repr__(self):
        return f'SWord{self.e.size()}({z3.simplify(self.e)})'


_OUT = object()


def _ext(e, w, signed):
    d = w - e.size()
    if d <= 0:
        return e
    return z3.SignExt(d, e) if signed else z3.ZeroExt(d, e)


def _cell(x):
    return x if not isinstance(x, int) else z3.BitVecVal(x, 8)


def _norm_cell(x):
    if isinstance(x, int):
        return x
    if z3.is_bv_value(x):
        return x.as_long()
    return x


class SBytes:
    '''Byte string of concrete length; each cell is an int or a z3 BitVec(8) term.'''
    __slots__ = ('_c', 'w')

    def __init__(self, cells, parts=None):
        # cells may be None when parts are given: they are then derived lazily
        self._c = cells if (cells is None or isinstance(cells, list)) else list(cells)
        # optional: list of (z3 BitVec term | bytes, nbytes) whose concatenation is exactly the
        # cells; lets equality and hashing work on a few wide terms instead of per byte
        self.w = parts

    @property
    def c(self):
        c = self._c
        if c is None:
            c = []
            for t, n in self.w:
                if isinstance(t, bytes):
                    c += list(t)
                else:
                    c += [z3.Extract(8 * (n - i) - 1, 8 * (n - i - 1), t) for i in range(n)]
            self._c = c
        return c

    @c.setter
    def c(self, v):
        self._c = v

    def parts(self):
        if self.w is not None:
            return self.w
        return None

    @staticmethod
    def of(x):
        if isinstance(x, SBytes):
            return x
        if isinstance(x, (bytes, bytearray, memoryview)):
            return SBytes(list(bytes(x)))
        raise TypeError(f'cannot make SBytes from {type(x).__name__}')

    def is_concrete(self):
        if self._c is None:
            return all(isinstance(t, bytes) for t, _n in self.w)
        return all(isinstance(x, int) for x in self._c)

    def concrete(self):
        return bytes(self.c)

    def __len__(self):
        if self._c is None:
            return sum(n for _t, n in self.w)
        return len(self._c)

    def __bool__(self):
        return len(self) > 0

    def __iter__(self):
        for x in self.c:
            yield x if isinstance(x, int) else SWord(x)

    def __getitem__(self, i):
        if isinstance(i, slice):
            start, stop, step = i.start, i.stop, i.step
            if isinstance(start, (SInt, SWord)):
                start = start.__index__()
            if isinstance(stop, (SInt, SWord)):
                stop = stop.__index__()
            if step is None and (start is None or start == 0) and (stop is None or stop >= len(self)):
                return SBytes(None if self._c is None else list(self._c), self.w)
            return SBytes(self.c[slice(start, stop, step)])
        if isinstance(i, (SInt, SWord)):
            i = i.__index__()
        x = self.c[i]
        return x if isinstance(x, int) else SWord(x)

    def __add__(self, o):
        if isinstance(o, SBytes):
            if self.w is not None and o.w is not None:
                return SBytes(None, self.w + o.w)
            return SBytes(self.c + o.c)
        if isinstance(o, (bytes, bytearray, memoryview)):
            o = bytes(o)
            if self.w is not None:
                return SBytes(None, self.w + ([(o, len(o))] if o else []))
            return SBytes(self.c + list(o))
        return NotImplemented

    def __radd__(self, o):
        if isinstance(o, (bytes, bytearray, memoryview)):
            o = bytes(o)
            if self.w is not None:
                return SBytes(None, ([(o, len(o))] if o else []) + self.w)
            return SBytes(list(o) + self.c)
        return NotImplemented

    def __mul__(self, n):
        return SBytes(self.c * n)

    def _eq_term(self, o):
        '''z3 Bool / python bool for equality with another bytes-like.'''
        if not isinstance(o, (bytes, bytearray, memoryview, SBytes)):
            return None
        if len(o) != len(self):
            return False
        wide = _wide_eq(self, o)
        if wide is not None:
            return wide
        if isinstance(o, SBytes):
            oc = o.c
        else:
            oc = list(bytes(o))
        if len(oc) != len(self.c):
            return False
        conj = []
        for a, b in zip(self.c, oc):
            if isinstance(a, int) and isinstance(b, int):
                if a != b:
                    return False
            elif a is b:
                continue
            else:
                conj.append(_cell(a) == _cell(b))
        if not conj:
            return True
        return z3.And(*conj) if len(conj) > 1 else conj[0]

    def __eq__(self, o):
        t = self._eq_term(o)
        if t is None:
            return False
        if isinstance(t, bool):
            return t
        return _bool(t)

    def __ne__(self, o):
        t = self._eq_term(o)
        if t is None:
            return True
        if isinstance(t, bool):
            return not t
        return _bool(z3.Not(t))

    def _lt_term(self, o, or_equal):
        oc = SBytes.of(o).c
        n = min(len(self.c), len(oc))
        if or_equal:
            res = z3.BoolVal(len(self.c) <= len(oc))
        else:
            res = z3.BoolVal(len(self.c) < len(oc))
        for a, b in reversed(list(zip(self.c[:n], oc[:n]))):
            if isinstance(a, int) and isinstance(b, int):
                if a < b:
                    res = z3.BoolVal(True)
                elif a > b:
                    res = z3.BoolVal(False)
                continue
            a, b = _cell(a), _cell(b)
            res = z3.If(z3.ULT(a, b), True, z3.If(a == b, res, False))
        return res

    def __lt__(self, o): return _bool(self._lt_term(o, False))
    def __le__(self, o): return _bool(self._lt_term(o, True))
    def __gt__(self, o): return _bool(z3.Not(self._lt_term(o, True)))
    def __ge__(self, o): return _bool(z3.Not(self._lt_term(o, False)))

    def __hash__(self):
        return 0

    def startswith(self, p):
        p = SBytes.of(p)
        if len(p) > len(self.c):
            return False
        return SBytes(self.c[:len(p)]) == p

    def endswith(self, p):
        p = SBytes.of(p)
        if len(p) > len(self.c):
            return False
        return SBytes(self.c[len(self.c) - len(p):]) == p

    def hex(self):
        if self.is_concrete():
            return bytes(self.c).hex()
        return ''.join(f'{x:02x}' if isinstance(x, int) else '??' for x in self.c)

    def __bytes__(self):
        if self.is_concrete():
            return bytes(self.c)
        raise Unencodable('bytes() of symbolic SBytes reached a C boundary')

    def tobytes(self):
        return self

    def release(self):
        pass

    def __repr__(self):
        return f'SBytes({self.hex()})'

    def __format__(self, spec):
        return self.hex()


def _wide_eq(a, o):
    '''Equality through the wide parts when both sides have the same partition.'''
    if a.w is None:
        return None
    if isinstance(o, SBytes):
        if o.w is None:
            return None
        pa, pb = a.w, o.w
        if len(pa) != len(pb) or any(x[1] != y[1] for x, y in zip(pa, pb)):
            return None
    else:
        ob = bytes(o)
        pa, pb, off = a.w, [], 0
        for _t, n in pa:
            pb.append((ob[off:off + n], n))
            off += n
    conj = []
    for (x, n), (y, _n) in zip(pa, pb):
        xb, yb = isinstance(x, bytes), isinstance(y, bytes)
        if xb and yb:
            if x != y:
                return False
            continue
        if not xb and not yb and z3.eq(x, y):
            continue
        xt = z3.BitVecVal(int.from_bytes(x, 'big'), 8 * n) if xb else x
        yt = z3.BitVecVal(int.from_bytes(y, 'big'), 8 * n) if yb else y
        conj.append(xt == yt)
    if not conj:
        return True
    return z3.And(*conj) if len(conj) > 1 else conj[0]


def wide_term(x):
    '''One z3 BitVec term for the whole byte string.'''
    if x.w is not None:
        ts = [z3.BitVecVal(int.from_bytes(t, 'big'), 8 * n) if isinstance(t, bytes) else t for t, n in x.w]
    else:
        ts = [_cell(c) for c in x.c]
    return z3.Concat(*ts) if len(ts) > 1 else ts[0]


def bytes_of_term(t, n):
    '''SBytes of n bytes whose cells are the big-endian bytes of the BitVec(8n) term t.'''
    return SBytes(None, [(t, n)])


class SByteArray(SBytes):
    __slots__ = ()

    def extend(self, o):
        self.c += SBytes.of(o).c
        self.w = None

    def __iadd__(self, o):
        self.c += SBytes.of(o).c
        self.w = None
        return self

    def clear(self):
        self.c.clear()
        self.w = None

    def __setitem__(self, i, v):
        _ = self.c
        self.w = None
        if isinstance(i, slice):
            self.c[i] = SBytes.of(v).c
        else:
            self.c[i] = v.e if isinstance(v, SWord) else v

    __hash__ = SBytes.__hash__


def norm_bytes(cells):
    '''Build an SBytes from cells, folding constant z3 terms to ints.'''
    return SBytes([_norm_cell(z3.simplify(x)) if not isinstance(x, int) else x for x in cells])


# ---------------------------------------------------------------------------------------------
# structural equality as a formula, and concretisation of a value under a model
# ---------------------------------------------------------------------------------------------

def deep_eq(a, b):
    '''z3 Bool (or python bool) stating that a and b are equal, structurally.'''
    if isinstance(a, SBool) or isinstance(b, SBool):
        return as_z3_bool(a) == as_z3_bool(b)
    if isinstance(a, (SInt, SWord)) or isinstance(b, (SInt, SWord)):
        r = (a == b) if isinstance(a, (SInt, SWord)) else (b == a)
        return r.e if isinstance(r, SBool) else bool(r)
    if isinstance(a, SBytes) or isinstance(b, SBytes):
        if isinstance(a, (SBytes, bytes, bytearray, memoryview)) and isinstance(b, (SBytes, bytes, bytearray, memoryview)):
            t = SBytes.of(a)._eq_term(b)
            return t
        return False
    if isinstance(a, (tuple, list)) and isinstance(b, (tuple, list)):
        if len(a) != len(b):
            return False
        terms = []
        for x, y in zip(a, b):
            t = deep_eq(x, y)
            if t is False:
                return False
            if t is not True:
                terms.append(t)
        if not terms:
            return True
        return z3.And(*terms) if len(terms) > 1 else terms[0]
    if isinstance(a, (bytes, bytearray, memoryview)) and isinstance(b, (bytes, bytearray, memoryview)):
        return bytes(a) == bytes(b)
    r = (a == b)
    return bool(r)


def concretize(v, model):
    '''Evaluate a (possibly nested) proxy value under a z3 model to native Python.'''
    if isinstance(v, SBool):
        return bool(z3.is_true(model.eval(v.e, model_completion=True)))
    if isinstance(v, SInt):
        r = model.eval(v.e, model_completion=True)
        return r.as_long() if z3.is_int_value(r) else float(r.as_fraction())
    if isinstance(v, SWord):
        r = model.eval(v.e, model_completion=True)
        return r.as_signed_long() if v.signed else r.as_long()
    if isinstance(v, SBytes):
        return bytes(x if isinstance(x, int) else model.eval(x, model_completion=True).as_long() for x in v.c)
    if isinstance(v, tuple):
        return tuple(concretize(x, model) for x in v)
    if isinstance(v, list):
        return [concretize(x, model) for x in v]
    if isinstance(v, dict):
        return {concretize(k, model): concretize(x, model) for k, x in v.items()}
    if isinstance(v, (set, frozenset)):
        return {concretize(x, model) for x in v}
    return v


def observe(label, value):
    '''Record an observable of the current path (compared between symbolic and native runs).'''
    _ENGINE.path_local.setdefault('obs', []).append((label, value))


def native():
    '''True when the scenario is running natively on concrete inputs.'''
    return _ENGINE is not None and _ENGINE.concrete is not None


def z3_and(terms):
    ts = []
    for t in terms:
        if t is True:
            continue
        if t is False:
            return False
        ts.append(as_z3_bool(t))
    if not ts:
        return True
    return z3.And(*ts) if len(ts) > 1 else ts[0]


def z3_or(terms):
    ts = []
    for t in terms:
        if t is False:
            continue
        if t is True:
            return True
        ts.append(as_z3_bool(t))
    if not ts:
        return False
    return z3.Or(*ts) if len(ts) > 1 else ts[0]


def z3_not(t):
    if isinstance(t, bool):
        return not t
    return z3.Not(as_z3_bool(t))


def z3_implies(a, b):
    return z3_or([z3_not(a), b])
