"""Environment stubs shared by the harnesses: an in-memory key-value store registered through
the code's own storage extension point, an in-memory file system behind util.open_file, a crash
model over both, and helpers that construct the real DB / BlockProcessor objects on them.

In *native* mode (replay, twin validation) none of this is used: the same scenarios run on
real LevelDB and real files in a scratch directory.
"""
import builtins
import io
import logging
import os
import shutil
import sys
import tempfile

from . import symx
from .symx import SBytes, SByteArray, SWord, SInt, engine


class Crash(BaseException):
    '''The simulated process dies here.'''


class Durable:
    '''Counts durable operations (file writes, batch commits, puts) and triggers the crash.'''

    def __init__(self):
        self.count = 0
        self.crash_at = None      # int / SInt: number of the operation that does not complete
        self.armed = False
        self.preempt = None       # optional callable(label) before every durable operation
        self.preempt_reads = False  # also before every store read (get / iterator)
        self.log = []
        self.phase = ''           # set by harnesses to label where a durable operation happens

    def read(self, detail=''):
        '''A store read: a preemption point only (never a crash point, not counted).'''
        if self.preempt_reads and self.preempt is not None:
            self.preempt(f'read:{detail}')

    def op(self, kind, detail=''):
        '''Returns True if the operation completes, False if the process dies in it.'''
        if self.preempt is not None:
            self.preempt(f'{kind}:{detail}')
        if not self.armed:
            return True
        n = self.count
        self.count += 1
        self.log.append((kind, detail, self.phase))
        if self.crash_at is not None and bool(self.crash_at == n):
            self.armed = False
            self.log.append(('CRASH', n))
            return False
        return True


class MemStore:
    '''Key-value store as an association list; keys are only compared (==, <), so symbolic
    keys work.  Iteration is in sorted key order.  Batches are atomic.'''

    def __init__(self, name, durable):
        self.name = name
        self.items = []
        self.durable = durable
        self.opened = False

    def _find(self, k):
        for n, (kk, _v) in enumerate(self.items):
            if kk == k:
                return n
        return -1

    def _apply(self, k, v):
        n = self._find(k)
        if v is None:
            if n >= 0:
                del self.items[n]
        elif n >= 0:
            self.items[n] = (k, v)
        else:
            self.items.append((k, v))

    def get(self, k):
        self.durable.read(self.name)
        n = self._find(k)
        return self.items[n][1] if n >= 0 else None

    def put(self, k, v):
        if not self.durable.op('put', self.name):
            raise Crash()
        self._apply(k, v)

    def write_batch(self):
        return _Batch(self)

    def iterator(self, prefix=b'', reverse=False):
        self.durable.read(self.name)
        n = len(prefix)
        out = [(k, v) for k, v in self.items if len(k) >= n and k[:n] == prefix]
        _sort_items(out)
        if reverse:
            out.reverse()
        return iter(out)

    def snapshot(self):
        return list(self.items)


def _sort_items(items):
    # insertion sort with explicit comparisons (each symbolic comparison is a fork)
    for i in range(1, len(items)):
        j = i
        while j > 0 and items[j][0] < items[j - 1][0]:
            items[j], items[j - 1] = items[j - 1], items[j]
            j -= 1


class _Batch:
    def __init__(self, store):
        self.store = store
        self.ops = []

    def put(self, k, v):
        self.ops.append((k, v))

    def delete(self, k):
        self.ops.append((k, None))

    def __enter__(self):
        return self

    def __exit__(self, et, ev, tb):
        if et is None:
            if not self.store.durable.op('batch', self.store.name):
                raise Crash()
            for k, v in self.ops:
                self.store._apply(k, v)
        return False


class MemFS:
    '''name -> list of byte cells.'''

    def __init__(self, durable):
        self.files = {}
        self.durable = durable
        self.dirs = set()

    def open_file(self, filename, create=False):
        if filename not in self.files:
            if not create:
                raise FileNotFoundError(filename)
            self.files[filename] = []
        return MemFile(self, filename)

    def open_truncate(self, filename):
        self.files[filename] = []
        return MemFile(self, filename)

    def mkdir(self, path):
        if path in self.dirs:
            raise FileExistsError(path)
        self.dirs.add(path)

    def exists(self, path):
        return path in self.files or path in self.dirs


def _cells_to_bytes(cells):
    if all(isinstance(x, int) for x in cells):
        return builtins.bytes(cells)
    return SBytes(list(cells))


class MemFile:
    def __init__(self, fs, name):
        self.fs = fs
        self.name = name
        self.pos = 0
        self.closed = False

    def __enter__(self):
        return self

    def __exit__(self, *a):
        self.closed = True
        return False

    def close(self):
        self.closed = True

    def seek(self, pos, whence=os.SEEK_SET):
        if isinstance(pos, (SInt, SWord)):
            pos = pos.__index__()
        assert whence == os.SEEK_SET
        self.pos = pos
        return pos

    def tell(self):
        return self.pos

    def read(self, size=-1):
        cells = self.fs.files[self.name]
        if isinstance(size, (SInt, SWord)):
            kv = symx.known_value(size)
            if kv is not None:
                size = kv
            else:
                # fork on "at least what remains" so that all large sizes are one path
                remaining = max(0, len(cells) - self.pos)
                if size < 0 or size >= remaining:
                    size = -1
                else:
                    size = size.__index__()
        if size is None or size < 0:
            out = cells[self.pos:]
        else:
            out = cells[self.pos:self.pos + size]
        self.pos += len(out)
        return _cells_to_bytes(out)

    def write(self, b):
        cells = self.fs.files[self.name]
        new = SBytes.of(b).c if not isinstance(b, SBytes) else b.c
        n = len(new)
        ok = self.fs.durable.op('write', f'{self.name}@{self.pos}+{n}')
        if len(cells) < self.pos:
            cells.extend([0] * (self.pos - len(cells)))
        if not ok:
            # torn write: the written range holds arbitrary bytes (superset of every prefix)
            eng = engine()
            garbage = [eng.anon(8, 'torn') for _ in range(n)] if eng and eng.concrete is None \
                else [0xEE] * n
            cells[self.pos:self.pos + n] = garbage
            raise Crash()
        cells[self.pos:self.pos + n] = new
        self.pos += n
        return n


class _OsShim:
    '''os with chdir/mkdir redirected to the MemFS of the current world.'''

    def __init__(self, world):
        self._w = world
        self.path = os.path
        self.SEEK_SET = os.SEEK_SET

    def __getattr__(self, k):
        return getattr(os, k)

    def chdir(self, d):
        pass

    def mkdir(self, p):
        self._w.fs.mkdir(p)

    def remove(self, p):
        if p not in self._w.fs.files:
            raise FileNotFoundError(p)
        del self._w.fs.files[p]

    def scandir(self, path):
        fs = self._w.fs
        prefix = path.rstrip('/') + '/'

        class Entry:
            def __init__(self, full):
                self.path = full
                self.name = full[len(prefix):]

            def is_file(self):
                return True

            def stat(self):
                class S:
                    st_size = len(fs.files[self.path])
                return S()

        class Ctx(list):
            def __enter__(self):
                return iter(self)

            def __exit__(self, *a):
                return False
        return Ctx(Entry(f) for f in sorted(fs.files) if f.startswith(prefix) and '/' not in f[len(prefix):])


_REGISTERED = False
CURRENT = None


def _register_memstore():
    '''Register the stub as a Storage subclass named Memstore (DB_ENGINE=memstore).'''
    global _REGISTERED
    if _REGISTERED:
        return
    import electrumx.server.storage as storage

    class Memstore(storage.Storage):
        @classmethod
        def import_module(cls):
            pass

        def __init__(self, name, for_sync):
            w = CURRENT
            s = w.stores.get(name)
            self.is_new = s is None
            if s is None:
                s = w.stores[name] = MemStore(name, w.durable)
            self._s = s
            self.for_sync = for_sync or self.is_new
            self.get = s.get
            self.put = s.put
            self.write_batch = s.write_batch
            self.iterator = s.iterator

        def close(self):
            pass

    Memstore.__module__ = storage.__name__
    storage.Memstore = Memstore
    _REGISTERED = True


_NATIVE_REGISTERED = False


def _register_native_crash():
    '''Native mode: real LevelDB and real files, with the same durable-operation counter in
    front of them (batch commit / put / file write), so crash scenarios replay natively.'''
    global _NATIVE_REGISTERED
    if _NATIVE_REGISTERED:
        return
    import electrumx.server.storage as storage

    class _WB:
        def __init__(self, real, durable, name):
            self.real, self.durable, self.name = real, durable, name

        def __enter__(self):
            return self.real.__enter__()

        def __exit__(self, et, ev, tb):
            if et is None and not self.durable.op('batch', self.name):
                self.real.__exit__(Crash, Crash(), None)     # discard the transaction
                raise Crash()
            return self.real.__exit__(et, ev, tb)

    class Crashleveldb(storage.LevelDB):
        def open(self, name, create):
            super().open(name, create)
            durable = CURRENT.durable
            real_put, real_wb = self.put, self.write_batch

            def put(k, v):
                if not durable.op('put', name):
                    raise Crash()
                return real_put(k, v)
            self.put = put
            self.write_batch = lambda: _WB(real_wb(), durable, name)
            real_get, real_it = self.get, self.iterator

            def get(k):
                durable.read(name)
                return real_get(k)

            def iterator(*a, **kw):
                durable.read(name)
                return real_it(*a, **kw)
            self.get, self.iterator = get, iterator

    Crashleveldb.__module__ = storage.__name__
    storage.Crashleveldb = Crashleveldb
    _NATIVE_REGISTERED = True


class _NativeFile:
    def __init__(self, f, durable, name):
        self.f, self.durable, self.name = f, durable, name

    def __enter__(self):
        return self

    def __exit__(self, *a):
        self.f.close()
        return False

    def __getattr__(self, k):
        return getattr(self.f, k)

    def write(self, b):
        if not self.durable.op('write', self.name):
            self.f.write(b'\xee' * len(b))
            self.f.flush()
            raise Crash()
        return self.f.write(b)


BASE_ENV = dict(DAEMON_URL='http://u:p@localhost:8332/', COIN='BitcoinSV', NET='regtest',
                PEER_DISCOVERY='OFF', SERVICES='', REPORT_SERVICES='')


class World:
    '''The persistent part of a scenario: stores + files (+ the crash counter).  Survives
    simulated restarts; DB/BlockProcessor objects are rebuilt on it by open_*().'''

    def __init__(self, *, native=False, reorg_limit=5, coin=None, env_extra=None):
        global CURRENT
        self.native = native
        self.durable = Durable()
        self.stores = {}
        self.fs = MemFS(self.durable)
        self.dir = None
        self.reorg_limit = reorg_limit
        self.coin = coin
        self.env_extra = env_extra or {}
        self._cwd = os.getcwd()
        if native:
            self.dir = tempfile.mkdtemp(prefix='verif-native-', dir=os.environ.get('VERIF_SCRATCH'))
        CURRENT = self
        logging.disable(logging.CRITICAL)

    def make_env(self):
        from electrumx.server.env import Env
        e = dict(BASE_ENV)
        e['DB_DIRECTORY'] = self.dir if self.native else '/'
        e['DB_ENGINE'] = 'crashleveldb' if self.native else 'memstore'
        e['REORG_LIMIT'] = str(self.reorg_limit) if isinstance(self.reorg_limit, int) else '5'
        e.update(self.env_extra)
        saved = dict(os.environ)
        os.environ.update(e)
        try:
            env = Env(self.coin)
        finally:
            os.environ.clear()
            os.environ.update(saved)
        if not isinstance(self.reorg_limit, int):
            env.reorg_limit = self.reorg_limit
        return env

    def install(self):
        '''Point the loaded electrumx modules at this world (symbolic mode only).'''
        global CURRENT
        CURRENT = self
        if self.native:
            _register_native_crash()
            import electrumx.lib.util as util
            if not hasattr(util, '_verif_real_open_file'):
                util._verif_real_open_file = util.open_file

            def open_file(filename, create=False):
                return _NativeFile(util._verif_real_open_file(filename, create), CURRENT.durable, filename)
            util.open_file = open_file
            return
        _register_memstore()
        import electrumx.lib.util as util
        import electrumx.server.db as dbmod
        util.open_file = self.fs.open_file
        util.open_truncate = self.fs.open_truncate
        dbmod.os = _OsShim(self)
        bp = sys.modules.get('electrumx.server.block_processor')
        if bp is not None:
            bp.open_file = self.fs.open_file
            bp.os = _OsShim(self)
        dm = sys.modules.get('electrumx.server.daemon')
        if dm is not None:
            dm.open_truncate = self.fs.open_truncate

    def new_db(self):
        import electrumx.server.db as dbmod
        self.install()
        env = self.make_env()
        db = dbmod.DB(env)
        if getattr(self, 'small_files', False):
            # the three flat files are split into physical files of 16 MB / 2 MB; scaled down (two records per
            # physical file, record-aligned as in the real sizes) so that reads and writes cross file boundaries
            import electrumx.lib.util as util
            db.headers_file = util.LogicalFile('meta/headers', 2, 160)
            db.tx_counts_file = util.LogicalFile('meta/txcounts', 2, 16)
            db.hashes_file = util.LogicalFile('meta/hashes', 4, 64)
        return env, db

    def close(self):
        if self.native:
            os.chdir(self._cwd)
            if self.dir:
                shutil.rmtree(self.dir, ignore_errors=True)
                self.dir = None


def run_coro(coro):
    '''Drive a coroutine that never really suspends.'''
    try:
        coro.send(None)
    except StopIteration as e:
        return e.value
    coro.close()
    raise RuntimeError('coroutine suspended in synchronous mode')
