"""Scenario scripts for the full system (vlib.fullsim): a list of external events - blocks, reorgs,
forced reorgs, mempool arrivals / evictions, client subscriptions and queries - applied at
quiescent points, while the interleaving of everything in between is explored by the gate
scheduler (bounded deviations from FIFO: postpone a gate, fire a timer early, inject the next
scripted event early).  Chain content is concrete; the schedule is the symbolic input.
"""
from . import symx, chain, fullsim
from .symx import engine

from electrumx.lib.hash import sha256, hash_to_hex_str   # noqa (loaded through the hook when installed)


def alias_of(cls):
    return hash_to_hex_str(sha256(chain.SCRIPTS[cls]))


class Story:
    def __init__(self, shape):
        self.shape = shape
        self.eng = engine()
        self.sim = chain.Sim(reorg_limit=shape.get('reorg_limit', 10), activation=0, concrete=True)
        self.sim.merkle_headers = True
        self.fs = fullsim.FullSim(self.sim, deviations=shape.get('deviations', 0),
                                  max_steps=shape.get('max_steps', 900), with_sessions=shape.get('sessions', True),
                                  split_jobs=shape.get('split_jobs', False), real_odb=shape.get('real_odb', False),
                                  chunk_size=shape.get('chunk_size'))
        if shape.get('real_odb', False):
            self.sim.real_txids = True
        self.fs.sched.window = shape.get('window')
        self.fs.sched.hold_mode = shape.get('hold', False)
        if shape.get('filter'):
            # only gates with this label prefix are candidates for postponement (timers and events are not affected)
            self.fs.sched.filter = lambda g, p=shape['filter']: g.label.startswith(p)
        self.main = []               # the daemon's current chain (RBlocks)
        self.mp = {}                 # name -> prepared RTx
        self.requests = []           # outcomes of client requests
        self.nblock = 0
        self.old_chains = []         # chains the daemon was on earlier

    # -- events ------------------------------------------------------------------------------------
    def apply(self, ev):
        fs, sim = self.fs, self.sim
        kind = ev[0]
        if kind == 'block':
            spec = dict(ev[1])
            include = ev[2] if len(ev) > 2 else []
            spec['txs'] = [{'pre': self.mp[n]} for n in include if self.mp[n] in fs.daemon.mempool] + \
                list(spec.get('txs', []))
            new = list(self.main)
            self.nblock += 1
            sim.gen_block(spec, f'k{self.nblock}', chain=new)
            for n in include:
                for o in self.mp[n].ins:
                    if o in sim.reserved:
                        sim.reserved.remove(o)
            self.main = new
            fs.daemon.set_chain(new)
        elif kind == 'reorg':
            depth, specs = ev[1], ev[2]
            new = list(self.main[:len(self.main) - depth])
            # mempool transactions confirmed on the orphaned blocks return to the mempool
            orphaned = [t for b in self.main[len(self.main) - depth:] for t in b.txs if t in self.mp.values()]
            for spec in specs:
                self.nblock += 1
                sim.gen_block(spec, f'k{self.nblock}', chain=new)
            self.old_chains.append(list(self.main))
            self.main = new
            fs.daemon.set_chain(new)
            for t in orphaned:
                if t not in fs.daemon.mempool and all(self._unspent(o, new) for o in t.ins):
                    fs.daemon.mempool.append(t)
        elif kind == 'poll':
            # the block processor's poll timer expires right now
            for g in list(fs.sched.pending):
                if g.kind == 'time' and g.label.startswith('bp.sleep'):
                    fs.sched.open(g)
                    break
        elif kind == 'force_reorg':
            fs.bp.force_chain_reorg(ev[1])
        elif kind == 'force_flush':
            # what check_cache_size_loop does under cache pressure
            fs.bp.force_flush_arg = ev[1]
        elif kind == 'mp_add':
            name, n_ins, outs = ev[1], ev[2], ev[3]
            parents = [self.mp[p] for p in (ev[4] if len(ev) > 4 else [])]
            rt = sim.prepare_tx(name, n_ins, outs, self.main, parents, only_parents=bool(parents))
            self.mp[name] = rt
            fs.add_mempool_tx(rt)
        elif kind == 'mp_evict':
            rt = self.mp[ev[1]]
            fs.daemon.mempool = [t for t in fs.daemon.mempool if t is not rt]
            for o in rt.ins:
                if o in sim.reserved:
                    sim.reserved.remove(o)
        elif kind == 'sub':
            c, cls = fs.clients[ev[1]], ev[2]
            alias = alias_of(cls)
            out = fs.spawn(self._subscribe(c, cls, alias), f'sub {ev[1]} {cls}')
            self.requests.append(out)
        elif kind == 'unsub':
            c, cls = fs.clients[ev[1]], ev[2]
            c.s.unsubscribe_hashX(chain.ref_hashX(chain.SCRIPTS[cls]))
            c.status.pop(alias_of(cls), None)
        elif kind == 'hsub':
            c = fs.clients[ev[1]]
            self.requests.append(fs.spawn(self._hsub(c), f'hsub {ev[1]}'))
        elif kind == 'query':
            c, what, arg = fs.clients[ev[1]], ev[2], ev[3]
            self.requests.append(fs.spawn(self._query(c, what, arg), f'query {what} {arg}'))
        else:
            raise ValueError(kind)

    def _unspent(self, o, chain_blocks):
        spent = {id(x) for b in chain_blocks for tx in b.txs for x in tx.ins}
        created = {id(x) for b in chain_blocks for tx in b.txs for x in tx.outs}
        return id(o) in created and id(o) not in spent

    async def _subscribe(self, c, cls, alias):
        status = await c.s.hashX_subscribe(chain.ref_hashX(chain.SCRIPTS[cls]), alias)
        c.status[alias] = status          # the reply reaches the client
        return status

    async def _hsub(self, c):
        r = await c.s.headers_subscribe()
        c.header = r
        return r

    async def _query(self, c, what, arg):
        s = c.s
        if what == 'history':
            return await s.confirmed_and_unconfirmed_history(chain.ref_hashX(chain.SCRIPTS[arg]))
        if what == 'balance':
            return await s.get_balance(chain.ref_hashX(chain.SCRIPTS[arg]))
        if what == 'listunspent':
            return await s.hashX_listunspent(chain.ref_hashX(chain.SCRIPTS[arg]))
        if what == 'mempool':
            return await s.unconfirmed_history(chain.ref_hashX(chain.SCRIPTS[arg]))
        if what == 'id_from_pos':
            return await s.transaction_id_from_pos(arg[0], arg[1], False)
        if what == 'id_from_pos_merkle':
            return await s.transaction_id_from_pos(arg[0], arg[1], True)
        if what == 'header_proof':
            return await s.block_header(arg[0], arg[1])
        if what == 'headers_proof':
            return await s.block_headers(arg[0], arg[1], arg[2])
        raise ValueError(what)

    # -- running -----------------------------------------------------------------------------------
    def run(self):
        shape, fs, sim = self.shape, self.fs, self.sim
        for i, spec in enumerate(shape['initial']):
            self.nblock += 1
            sim.gen_block(spec, f'k{self.nblock}', chain=self.main)
        fs.daemon.set_chain(self.main)
        dev = fs.sched.deviations
        shutdown = shape.get('shutdown', False)
        if shutdown:
            fs.sched.permanent = [('shutdown', fs.shutdown, True)]
        if not shape.get('explore_startup', False):
            fs.sched.deviations = 0        # start-up is not part of the explored window
        for (prefix, nth), inner in shape.get('startup_triggers', []):
            fs.sched.triggers.append([prefix, nth, lambda inner=inner: self.apply(inner)])
        fs.start()
        fs.quiesce()
        if fs.stopped:
            return
        if shape.get('sessions', True):
            for _ in range(shape.get('clients', 1)):
                fs.client()
        script = list(shape['script'])
        fs.sched.deviations = dev if not shape.get('explore_startup', False) else fs.sched.deviations
        for n, ev in enumerate(script):
            if fs.stopped:
                return
            if isinstance(ev[0], (tuple, list)):
                # (('when', label_prefix, nth), event): injected right after that gate opens
                (_w, prefix, nth), inner = ev
                fs.sched.triggers.append([prefix, nth, lambda inner=inner: self.apply(inner)])
                continue
            self.apply(ev)
            # the following event may be injected early, as a deviation
            fs.sched.anytime = []
            if n + 1 < len(script) and not isinstance(script[n + 1][0], (tuple, list)) and shape.get('early', True):
                nxt = script[n + 1]
                done = {'v': False}

                def early(nxt=nxt, done=done):
                    done['v'] = True
                    self.apply(nxt)
                fs.sched.anytime = [(f'early:{nxt[0]}', early, True)]
                fs.quiesce(shape.get('rounds', 2))
                if done['v']:
                    script[n + 1] = ('noop',)
            else:
                fs.quiesce(shape.get('rounds', 2))
            fs.sched.anytime = []
        if fs.stopped:
            return
        script = [e for e in script]
        fs.sched.deviations = 0
        fs.quiesce(3)
        self.eng.note('schedule deviations: ' + ' | '.join(
            t for t in fs.sched.trace if t.startswith(('postpone', 'event:'))))

    def apply_noop(self):
        pass


_orig_apply = Story.apply


def _apply(self, ev):
    if ev[0] == 'noop':
        return
    return _orig_apply(self, ev)


Story.apply = _apply
