"""Symbolic chains, the synchronous driver of the real DB / BlockProcessor, and an independent
reference indexer (the oracle).  Used by C01-C05, C14, C15.

The block handed to advance_block / backup_block is a stub object implementing exactly what
those functions use (height, header, size, iter_txs, iter_txs_reversed, context manager) and
yields real Tx/TxInput/TxOutput tuples with a prescribed transaction hash; the parser is C13's
subject.
"""
import asyncio
import struct

from . import symx
from .symx import engine, deep_eq, z3_and, z3_or, z3_not, SBytes
from .world import World, run_coro, Crash

HASHX_LEN = 11
ZERO32 = bytes(32)
MINUS_1 = 0xffffffff


# -- plumbing ----------------------------------------------------------------------------------

_LOOP = None


def run(coro):
    '''Drive a coroutine of the real code to completion.'''
    global _LOOP
    if symx.native():
        if _LOOP is None or _LOOP.is_closed():
            _LOOP = asyncio.new_event_loop()
        return _LOOP.run_until_complete(coro)
    return run_coro(coro)


async def _inline(func, *args):
    return func(*args)


class ReaderSpins(Exception):
    '''A DB reader keeps retrying: the index refers to transactions it cannot resolve.'''


_SPINS = [0]


async def _nosleep(*a, **k):
    _SPINS[0] += 1
    if _SPINS[0] > 3:
        _SPINS[0] = 0
        raise ReaderSpins('limited_history / all_utxos keeps retrying (tx number beyond the stored height)')
    return None


def patch_sync():
    '''Symbolic mode: worker-thread hand-offs run inline (no real threads, no suspension).'''
    import electrumx.server.db as dbmod
    dbmod.sleep = _nosleep
    _SPINS[0] = 0
    if symx.native():
        # undo the gate-scheduler patches of an earlier phase: real worker threads
        import aiorpcx
        import sys as _sys
        dbmod.run_in_thread = aiorpcx.run_in_thread
        bp = _sys.modules.get('electrumx.server.block_processor')
        if bp is not None:
            bp.run_in_thread = aiorpcx.run_in_thread
        return
    import electrumx.server.block_processor as bpmod
    dbmod.run_in_thread = _inline
    bpmod.run_in_thread = _inline
    dbmod.sleep = _nosleep


def mkheader(prev_hash, nonce):
    return struct.pack('<I', 1) + bytes(prev_hash) + bytes(32) + struct.pack('<III', 1231006505, 0x207fffff, nonce)


class StubBlock:
    def __init__(self, height, header, size, pairs):
        self.height, self.header, self.size, self.pairs = height, header, size, pairs

    def __enter__(self):
        return self

    def __exit__(self, *a):
        return False

    def iter_txs(self):
        return iter(self.pairs)

    def iter_txs_reversed(self):
        return iter(list(reversed(self.pairs)))


class StubDaemon:
    def __init__(self, height):
        self._h = height

    def cached_height(self):
        return self._h

    async def height(self):
        return self._h


# -- reference model ---------------------------------------------------------------------------

class ROut:
    __slots__ = ('txhash', 'idx', 'script', 'value', 'height', 'txnum', 'spendable', 'hashX')

    def __init__(self, txhash, idx, script, value, height, txnum, spendable, hashX):
        self.txhash, self.idx, self.script, self.value = txhash, idx, script, value
        self.height, self.txnum, self.spendable, self.hashX = height, txnum, spendable, hashX


class RTx:
    __slots__ = ('hash', 'ins', 'outs', 'height', 'txnum', 'tx')

    def __init__(self, hash_, ins, outs, height, txnum, tx):
        self.hash, self.ins, self.outs, self.height, self.txnum, self.tx = hash_, ins, outs, height, txnum, tx


class RBlock:
    __slots__ = ('height', 'header', 'size', 'txs', 'hash', 'stub', 'raw')

    def __init__(self, height, header, size, txs, hash_, stub):
        self.height, self.header, self.size, self.txs, self.hash, self.stub = height, header, size, txs, hash_, stub
        self.raw = None            # real serialisation (real_txids mode)


def ref_unspendable(script, height, activation):
    '''Independent statement of the rule: from the activation height on only OP_FALSE OP_RETURN
    is unspendable; before it also a bare leading OP_RETURN.'''
    n = len(script)
    false_return = (n >= 2) and bool(script[0] == 0x00) and bool(script[1] == 0x6a)
    if false_return:
        return True
    if bool(height >= activation):
        return False
    return (n >= 1) and bool(script[0] == 0x6a)


def _real_txid(tx):
    import hashlib
    return hashlib.sha256(hashlib.sha256(bytes(tx.serialize())).digest()).digest()


def ref_merkle_root(hashes):
    '''Bitcoin merkle root, from the definition (hashlib only).'''
    import hashlib
    level = [bytes(h) for h in hashes]
    while len(level) > 1:
        if len(level) & 1:
            level.append(level[-1])
        level = [hashlib.sha256(hashlib.sha256(level[i] + level[i + 1]).digest()).digest()
                 for i in range(0, len(level), 2)]
    return level[0]


def ref_fold(leaf, branch, index):
    '''Fold a merkle branch (hashlib only).'''
    import hashlib
    h = bytes(leaf)
    for e in branch:
        e = bytes(e)
        h = hashlib.sha256(hashlib.sha256((e + h) if index & 1 else (h + e)).digest()).digest()
        index >>= 1
    return h


def ref_hashX(script):
    from electrumx.lib.hash import sha256
    return sha256(script)[:HASHX_LEN]


SCRIPTS = {
    'A': bytes.fromhex('76a914') + b'\x0a' * 20 + bytes.fromhex('88ac'),
    'B': bytes.fromhex('76a914') + b'\x0b' * 20 + bytes.fromhex('88ac'),
    'C': bytes.fromhex('a914') + b'\x0c' * 20 + bytes.fromhex('87'),
    'R': bytes.fromhex('6a0401020304'),
    'F': bytes.fromhex('006a0401020304'),
    'E': b'',
    'O': bytes.fromhex('6a'),
    'Z': bytes.fromhex('00'),
}


class _ConcreteSource:
    '''Stands in for the engine when the chain content is fixed: deterministic values.'''

    def __init__(self, eng):
        self._eng = eng

    def __getattr__(self, k):
        return getattr(self._eng, k)

    def fresh_bytes(self, name, n):
        import hashlib
        out = b''
        k = 0
        while len(out) < n:
            out += hashlib.sha256(f'{name}/{k}'.encode()).digest()
            k += 1
        return out[:n]

    def fresh_word(self, name, bits, signed=False):
        return 1000 + int.from_bytes(self.fresh_bytes(name, 3), 'big')

    def choice(self, name, n):
        # a fixed but varied spend graph (not always the oldest output)
        return int.from_bytes(self.fresh_bytes('choice/' + name, 4), 'big') % n


class Sim:
    '''Real DB + BlockProcessor on the stubs (symbolic) or on LevelDB (native), plus the
    reference chain.'''

    def __init__(self, *, reorg_limit=10, activation=None, daemon_height=100, wrap_concrete=True,
                 concrete=False):
        from electrumx.lib.coins import BitcoinSVRegtest
        eng = engine()
        self.eng = eng
        self.native = symx.native()
        # concrete content: hashes, values and spend selectors are fixed (deterministic); used where
        # the schedule, not the chain content, is the symbolic input
        self.concrete = concrete
        if concrete:
            eng = self.eng = _ConcreteSource(eng)
        if activation is None:
            activation = eng.fresh_int('activation')
        self.activation = activation

        class Coin(BitcoinSVRegtest):
            GENESIS_ACTIVATION = activation
        self.coin = Coin
        self.world = World(native=self.native, reorg_limit=reorg_limit, coin=Coin)
        self.daemon = StubDaemon(daemon_height)
        self.chain = []            # list of RBlock: the chain the index should reflect
        self.tx_hashes = []        # every (name, tx hash) ever generated (for distinctness)
        self.collide = set()       # frozenset({name, name}): pairs whose 4-byte prefixes may collide
        self.reserved = []         # outputs spent by prepared (mempool) transactions
        self.merkle_headers = False   # put the real merkle root of the tx hashes into the header (concrete mode)
        self.real_txids = False       # concrete mode: tx hash = double_sha256(serialisation); blocks carry raw bytes
        self._uniq = 0
        self.nonce = 0
        self.db = self.bp = self.env = None
        self.crashed = False

    # .. lifecycle ..
    def open(self):
        '''(Re)start: new DB and BlockProcessor objects on the persistent world.'''
        import electrumx.server.block_processor as bpmod
        patch_sync()
        self._close_db()
        self.env, self.db = self.world.new_db()
        self.bp = bpmod.BlockProcessor(self.env, self.db, self.daemon, None)
        self.bp.state = run(self.db.open_for_sync()).copy()
        bpmod.OnDiskBlock.state = self.bp.state
        return self.bp.state

    def _close_db(self):
        if self.native and self.db is not None and self.db.utxo_db is not None:
            try:
                self.db.utxo_db.close()
                self.db.history.close_db()
            except Exception:   # noqa
                pass
            self.db.utxo_db = None

    def close(self):
        self._close_db()
        self.world.close()

    # .. chain generation ..
    def wrap(self, b):
        '''Concrete byte strings that may meet symbolic ones in a dict/set must be proxies too
        (all proxies hash alike so that lookups become == forks).'''
        if self.native or self.concrete or isinstance(b, SBytes):
            return b
        return SBytes(list(b))

    def utxos(self, chain=None):
        return live_outputs(self.chain if chain is None else chain)

    def gen_block(self, spec, tag, chain=None):
        '''spec: {'cb': 'AS', 'txs': [{'ins': n, 'outs': 'SB'}, ...]} -> RBlock appended to chain.
        Output kinds: S = 3 symbolic script bytes, s = 1 symbolic byte, letters of SCRIPTS = concrete.'''
        from electrumx.lib.tx import Tx, TxInput, TxOutput
        eng = self.eng
        chain = self.chain if chain is None else chain
        height = len(chain)
        prev = chain[-1].hash if chain else ZERO32
        self.nonce += 1
        header = mkheader(prev, self.nonce)
        from electrumx.lib.hash import double_sha256
        bhash = bytes(double_sha256(header)) if not isinstance(double_sha256(header), bytes) else double_sha256(header)
        txnum = sum(len(b.txs) for b in chain)
        rtxs, pairs = [], []
        specs = [{'ins': 'cb', 'outs': spec.get('cb', 'A')}] + list(spec.get('txs', []))
        for t, ts in enumerate(specs):
            name = f'{tag}t{t}'
            if 'pre' in ts:
                rt = ts['pre']            # a prepared (mempool) transaction confirmed by this block
                rtxs.append(rt)
                pairs.append((rt.tx, rt.hash))
                txnum += 1
                continue
            txhash = self.new_hash(name)
            ins, rins = [], []
            if ts['ins'] == 'cb':
                cb_script = (b'\x03' + height.to_bytes(3, 'little') + bytes([self.nonce & 0xff])) if self.real_txids else b''
                ins.append(TxInput(ZERO32 if (self.native or self.concrete) else self.wrap(ZERO32), MINUS_1, cb_script, 0))
            else:
                for i in range(ts['ins']):
                    taken = {id(x) for rt in rtxs for x in rt.ins} | {id(x) for x in rins}
                    taken |= {id(x) for s2 in specs if 'pre' in s2 for x in s2['pre'].ins}
                    taken |= {id(x) for x in self.reserved}
                    cands = [o for o in self.utxos(chain) + [o for rt in rtxs for o in rt.outs if o.spendable]
                             if id(o) not in taken]
                    if not cands:
                        continue
                    k = eng.choice(f'{name}_in{i}', len(cands))
                    o = cands[k]
                    rins.append(o)
                    ins.append(TxInput(o.txhash, o.idx, b'', 0))
            outs, routs = [], []
            for j, kind in enumerate(ts['outs']):
                if kind == 'S':
                    script = eng.fresh_bytes(f'{name}_s{j}', 3)
                elif kind == 's':
                    script = eng.fresh_bytes(f'{name}_s{j}', 1)
                else:
                    script = self.wrap(SCRIPTS[kind])
                value = eng.fresh_word(f'{name}_v{j}', 64)
                if not self.native and not self.concrete:
                    eng.assume(value <= 21 * 10 ** 14)
                spendable = not ref_unspendable(script, height, self.activation)
                routs.append(ROut(txhash, j, script, value, height, txnum, spendable, ref_hashX(script)))
                outs.append(TxOutput(value, script))
            self._uniq += 1
            tx = Tx(1, ins, outs, self._uniq if self.real_txids else 0)
            if self.real_txids:
                txhash = _real_txid(tx)
                for o in routs:
                    o.txhash = txhash
                self.tx_hashes[-1] = (name, txhash)
            rt = RTx(txhash, rins, routs, height, txnum, tx)
            rtxs.append(rt)
            pairs.append((tx, txhash))
            txnum += 1
        if self.merkle_headers:
            header = header[:36] + ref_merkle_root([bytes(h) for _t, h in pairs]) + header[68:]
            bhash = double_sha256(header)
        size = 1000 + 7 * height + self.nonce
        raw = None
        if self.real_txids:
            from electrumx.lib.util import pack_varint
            raw = bytes(header) + pack_varint(len(pairs)) + b''.join(bytes(t.serialize()) for t, _h in pairs)
            size = len(raw)
        blk = RBlock(height, header, size, rtxs, bhash, StubBlock(height, header, size, pairs))
        blk.raw = raw
        chain.append(blk)
        return blk

    def prepare_tx(self, name, n_ins, outs, chain, parents=(), only_parents=False):
        '''A transaction that is not in a block yet (mempool): spends unspent outputs of the
        given chain and/or outputs of the parent prepared transactions.'''
        from electrumx.lib.tx import Tx, TxInput, TxOutput
        eng = self.eng
        txhash = self.new_hash(name)
        height = len(chain)
        rins, ins = [], []
        for i in range(n_ins):
            taken = {id(x) for x in self.reserved} | {id(x) for x in rins}
            pool = ([] if only_parents else self.utxos(chain)) + [o for p in parents for o in p.outs if o.spendable]
            cands = []
            for o in pool:
                if id(o) not in taken and all(o is not x for x in cands):
                    cands.append(o)
            if not cands:
                continue
            o = cands[eng.choice(f'{name}_in{i}', len(cands))]
            rins.append(o)
            ins.append(TxInput(o.txhash, o.idx, b'', 0))
        outs_t, routs = [], []
        for j, kind in enumerate(outs):
            script = eng.fresh_bytes(f'{name}_s{j}', 3) if kind == 'S' else self.wrap(SCRIPTS[kind])
            value = eng.fresh_word(f'{name}_v{j}', 64)
            if not self.native and not self.concrete:
                eng.assume(value <= 21 * 10 ** 14)
            spendable = not ref_unspendable(script, height, self.activation)
            routs.append(ROut(txhash, j, script, value, None, None, spendable, ref_hashX(script)))
            outs_t.append(TxOutput(value, script))
        self._uniq += 1
        tx = Tx(1, ins, outs_t, self._uniq if self.real_txids else 0)
        if self.real_txids:
            txhash = _real_txid(tx)
            for o in routs:
                o.txhash = txhash
            self.tx_hashes[-1] = (name, txhash)
        rt = RTx(txhash, rins, routs, None, None, tx)
        self.reserved += rins
        return rt

    def new_hash(self, name):
        """A transaction hash: 8 symbolic leading bytes followed by a concrete tail that is
        different for every hash of the scenario (so hashes are pairwise distinct by
        construction); the 4-byte compressed prefix may coincide only with the partners
        listed in self.collide."""
        eng = self.eng
        k = len(self.tx_hashes) + 1
        tail = bytes([k]) * 24
        h = eng.fresh_bytes(f'{name}_hash8', 8) + tail
        if not self.native and not self.concrete:
            for oname, oh in self.tx_hashes:
                if frozenset((name, oname)) not in self.collide:
                    eng.assume(z3_not(deep_eq(h[:4], oh[:4])))
        self.tx_hashes.append((name, h))
        return h

    def unspend(self, blk):
        '''Kept for callers: the reference derives spentness from the chain it is given.'''

    # .. driving the real code ..
    def advance(self, blk):
        self.bp.advance_block(blk.stub)

    def flush(self, flush_utxos=True):
        run(self.bp.flush(flush_utxos))

    def backup(self, blk):
        self.bp.backup_block(blk.stub)


# -- observation through the code's own read paths, compared with the reference ------------------

def live_outputs(chain):
    '''Reference UTXO set of a chain: spendable outputs created on it and not consumed on it.'''
    spent = {id(o) for b in chain for tx in b.txs for o in tx.ins}
    return [o for b in chain for tx in b.txs for o in tx.outs if o.spendable and id(o) not in spent]


def expected_history(chain, q):
    out = []
    for blk in chain:
        for tx in blk.txs:
            hit = any(o.spendable and bool(o.hashX == q) for o in tx.outs) or \
                any(bool(o.hashX == q) for o in tx.ins)
            if hit:
                out.append((tx.hash, blk.height))
    return out


def check_index(sim, label, *, queries=None, check_history=True, check_utxos=True, check_fs=True,
                check_state=True, check_limits=False, upto=None, sig_override=None, query_outs=None):
    '''Compare every observable of the real index with the reference chain sim.chain (or its
    first upto+1 blocks).'''
    eng, db = sim.eng, sim.db
    chain = sim.chain if upto is None else sim.chain[:upto + 1]
    top = len(chain) - 1
    sig = lambda s: {'signature': sig_override or f'{label}:{s}', 'observable': s}    # noqa
    all_outs = [o for b in chain for tx in b.txs for o in tx.outs]
    live = live_outputs(chain)
    live_ids = {id(o) for o in live}
    # confirmation height / transaction number of every output, derived from the chain given
    pos = {}
    _n = 0
    for b in chain:
        for tx in b.txs:
            for o in tx.outs:
                pos[id(o)] = (b.height, _n)
            _n += 1
    n_tx = sum(len(b.txs) for b in chain)
    if check_state:
        st = db.state
        eng.prove(st.height == len(chain) - 1, f'{label}: stored height wrong', sig('height'))
        eng.prove(st.tx_count == n_tx, f'{label}: tx_count wrong', sig('tx_count'))
        eng.prove(st.utxo_count == len(live), f'{label}: utxo_count wrong', sig('utxo_count'))
        eng.prove(st.chain_size == sum(b.size for b in chain), f'{label}: chain_size wrong', sig('chain_size'))
        eng.prove(deep_eq(st.tip, chain[-1].hash if chain else ZERO32), f'{label}: tip wrong', sig('tip'))
        symx.observe(f'{label}.state', (st.height, st.tx_count, st.utxo_count, st.chain_size))
    # script hashes to query: one per distinct hashX class of the scenario + an absent one
    if queries is None:
        queries = []
        for o in (all_outs if query_outs is None else query_outs):
            if not any(bool(o.hashX == q) for q in queries):
                queries.append(o.hashX)
        absent_q = sim.wrap(bytes(range(1, 12)))
        if not sim.native:
            for q in queries:
                eng.assume(z3_not(deep_eq(q, absent_q)))
        queries.append(absent_q)
    for qi, q in enumerate(queries):
        if check_utxos:
            got = run(db.all_utxos(q))
            exp = [o for o in live if bool(o.hashX == q)]
            got = sorted(got, key=lambda u: (_known(u.tx_num), _known(u.tx_pos)))
            exp = sorted(exp, key=lambda o: (pos[id(o)][1], o.idx))
            eng.prove(len(got) == len(exp), f'{label}: all_utxos returns a wrong number of outputs',
                      sig('all_utxos-count'))
            eng.prove(z3_and([z3_and([deep_eq(u.tx_num, pos[id(o)][1]), deep_eq(u.tx_pos, o.idx),
                                      deep_eq(u.tx_hash, o.txhash), deep_eq(u.height, pos[id(o)][0]),
                                      deep_eq(u.value, o.value)]) for u, o in zip(got, exp)]),
                      f'{label}: all_utxos returns wrong outputs', sig('all_utxos'))
            symx.observe(f'{label}.utxos{qi}', [(u.tx_num, u.tx_pos, u.height, u.value) for u in got])
        if check_history:
            exp = expected_history(chain, q)
            got = run(db.limited_history(q, limit=None))
            eng.prove(len(got) == len(exp), f'{label}: history has a wrong number of entries',
                      sig('history-count'))
            eng.prove(z3_and([z3_and([deep_eq(h, eh), deep_eq(ht, eht)]) for (h, ht), (eh, eht) in zip(got, exp)]),
                      f'{label}: history entries wrong or out of order', sig('history'))
            for limit in (range(0, len(exp) + 2) if check_limits else ()):
                gl = run(db.limited_history(q, limit=limit))
                el = exp[:limit]
                eng.prove(len(gl) == len(el) and z3_and(
                    [z3_and([deep_eq(h, eh), deep_eq(ht, eht)]) for (h, ht), (eh, eht) in zip(gl, el)]) is not False
                    and z3_and([z3_and([deep_eq(h, eh), deep_eq(ht, eht)]) for (h, ht), (eh, eht) in zip(gl, el)]),
                    f'{label}: limited history is not the first limit entries', sig('history-limit'))
            symx.observe(f'{label}.hist{qi}', [ht for _h, ht in got])
    if check_utxos:
        prevouts = [(o.txhash, o.idx) for o in all_outs]
        absent = sim.new_hash(f'{label}_absent')
        prevouts.append((absent, 0))
        got = run(db.lookup_utxos(prevouts))
        terms = []
        for o, g in zip(all_outs, got[:-1]):
            if id(o) in live_ids:
                terms.append(g is not None and z3_and([deep_eq(g[0], o.hashX), deep_eq(g[1], o.value)]))
            else:
                terms.append(g is None)
        terms.append(got[-1] is None)
        eng.prove(z3_and(terms), f'{label}: lookup_utxos wrong', sig('lookup_utxos'))
    if check_fs:
        num = 0
        for b in chain:
            got = db.fs_tx_hashes_at_blockheight(b.height)
            eng.prove(len(got) == len(b.txs) and z3_and([deep_eq(g, t.hash) for g, t in zip(got, b.txs)]),
                      f'{label}: block tx hashes wrong', sig('fs_tx_hashes_at_blockheight'))
            for t in b.txs:
                h, ht = db.fs_tx_hash(num)
                eng.prove(z3_and([deep_eq(h, t.hash), ht == b.height]), f'{label}: fs_tx_hash wrong',
                          sig('fs_tx_hash'))
                num += 1
        h, ht = db.fs_tx_hash(num)
        eng.prove(h is None, f'{label}: fs_tx_hash answers beyond the chain', sig('fs_tx_hash-beyond'))
        if chain:
            hdrs, n = run(db.read_headers(0, len(chain) + 3))
            eng.prove(n == len(chain) and deep_eq(_bytes(hdrs), b''.join(b.header for b in chain)),
                      f'{label}: headers wrong', sig('read_headers'))
            hashes = run(db.fs_block_hashes(0, len(chain)))
            eng.prove(z3_and([deep_eq(_bytes(a), b.hash) for a, b in zip(hashes, chain)]),
                      f'{label}: block hashes wrong', sig('fs_block_hashes'))


def _known(x):
    if isinstance(x, int):
        return x
    v = symx.known_value(x)
    if v is None:
        v = int(x)
    return v


def _bytes(x):
    return bytes(x) if isinstance(x, (memoryview, bytearray)) else x


def run_coro_plain(coro):
    '''Drive a coroutine that never suspends (query helpers).'''
    return run_coro(coro)
