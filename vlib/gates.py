"""Gate scheduler: the real asynchronous components run on a real asyncio event loop whose only
sources of progress are stubs; every stubbed await (worker-thread job, daemon call, sleep,
block fetch) parks at a *gate*.  When every task is parked the harness decides which gate opens
next.  The default is FIFO (oldest gate first; timers only when nothing else is pending); a
bounded number of deviations from that default are symbolic choices (solver-enumerated), so the
interleaving is an input of the exploration.  asyncio's FIFO ready queue makes everything between
two choices deterministic.

Worker-thread jobs are executed by the scheduler at the moment their gate opens (atomically);
when the awaiting task has been cancelled in the meantime the job is *orphaned*: it may still run
later (its thread had started) or never (it was still queued) - both are schedulable.
"""
import asyncio

from . import symx
from .symx import engine


class Gate:
    __slots__ = ('label', 'kind', 'fut', 'action', 'orphan', 'seq', 'done')

    def __init__(self, label, kind, fut, action, seq):
        self.label, self.kind, self.fut, self.action, self.seq = label, kind, fut, action, seq
        self.orphan = False
        self.done = False


class Scheduler:
    def __init__(self, deviations=0, max_steps=400):
        self.loop = asyncio.new_event_loop()
        self.pending = []
        self.seq = 0
        self.deviations = deviations
        self.max_steps = max_steps
        self.steps = 0
        self.trace = []              # labels of opened gates / events, in order
        self.anytime = []            # external events that may be injected as a deviation: (label, fn, once)
        self.choice_n = 0
        self.filter = None           # optional: callable(gate) -> bool, which gates count as deviation candidates

    # -- called from the stubs -----------------------------------------------------------------
    async def wait(self, label, kind='call', action=None):
        fut = self.loop.create_future()
        self.seq += 1
        g = Gate(label, kind, fut, action, self.seq)
        self.pending.append(g)
        try:
            return await fut
        except asyncio.CancelledError:
            if kind == 'job' and not g.done:
                g.orphan = True          # the job may already be running in its thread
            elif g in self.pending:
                self.pending.remove(g)
            raise

    def job(self, label):
        '''run_in_thread replacement.'''
        async def run_in_thread(func, *args):
            return await self.wait(f'{label}:{getattr(func, "__name__", "job")}', 'job', lambda: func(*args))
        return run_in_thread

    def sleeper(self, label):
        async def sleep(delay=0, *a):
            return await self.wait(f'{label}:{delay}', 'time', None)
        return sleep

    # -- driving -------------------------------------------------------------------------------
    def settle(self):
        '''Run the loop until every task is parked.'''
        loop = self.loop
        for _ in range(10000):
            loop.call_soon(loop.stop)
            loop.run_forever()
            if not loop._ready:
                return
        raise RuntimeError('event loop does not settle')

    def open(self, g):
        self.pending.remove(g)
        g.done = True
        self.trace.append(g.label + (' (orphan)' if g.orphan else ''))
        try:
            res = g.action() if g.action else None
        except (symx.Abort, symx.Violation):
            raise
        except BaseException as e:      # noqa - delivered to the awaiting task like a thread's exception
            if g.orphan or g.fut.done():
                if not isinstance(e, Exception):
                    raise
                self.trace.append(f'orphan job raised {type(e).__name__}')
            else:
                g.fut.set_exception(e)
            return
        if not g.orphan and not g.fut.done():
            g.fut.set_result(res)

    def candidates(self):
        calls = [g for g in self.pending if g.kind != 'time']
        times = [g for g in self.pending if g.kind == 'time']
        return calls, times

    def step(self, allow_time=True):
        '''Open one gate.  Returns False when nothing can be opened.'''
        self.settle()
        calls, times = self.candidates()
        default = calls[0] if calls else (times[0] if (times and allow_time) else None)
        options = []
        if self.deviations > 0:
            for g in calls[1:] + (times if calls else times[1:]):
                if self.filter is None or self.filter(g):
                    options.append(('gate', g))
            for ev in self.anytime:
                options.append(('event', ev))
        if default is None and not options:
            return False
        self.steps += 1
        if self.steps > self.max_steps:
            raise RuntimeError('scheduler step bound exceeded: ' + ' | '.join(self.trace[-12:]))
        pick = 0
        if options:
            self.choice_n += 1
            n = len(options) + (1 if default is not None else 0)
            pick = engine().choice(f'sched{self.choice_n}', n)
            if default is None:
                pick += 1
        if pick == 0:
            self.open(default)
        else:
            self.deviations -= 1
            kind, what = options[pick - 1]
            if kind == 'gate':
                self.open(what)
            else:
                label, fn, once = what
                if once:
                    self.anytime.remove(what)
                self.trace.append('event:' + label)
                fn()
        self.settle()
        return True

    def run_until(self, pred, allow_time=True, limit=300):
        for _ in range(limit):
            self.settle()
            if pred():
                return True
            if not self.step(allow_time):
                return pred()
        raise RuntimeError('run_until: bound exceeded: ' + ' | '.join(self.trace[-12:]))

    def only_timers_pending(self):
        return all(g.kind == 'time' for g in self.pending)

    def drain_calls(self):
        '''FIFO until only timers (sleeps) are parked.'''
        return self.run_until(self.only_timers_pending, allow_time=False)

    def close(self):
        try:
            for t in asyncio.all_tasks(self.loop):
                t.cancel()
            self.loop.call_soon(self.loop.stop)
            self.loop.run_forever()
        except BaseException:   # noqa
            pass
        try:
            self.loop.close()
        except BaseException:   # noqa
            pass
