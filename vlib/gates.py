"""Gate scheduler: the real asynchronous components run on a real asyncio event loop whose only
sources of progress are stubs; every stubbed await (worker-thread job, daemon call, sleep,
block fetch) parks at a *gate*.  When every task is parked the harness decides which gate opens
next.  The default is FIFO (oldest gate first; timers only when nothing else is pending); a
bounded number of deviations from that default are symbolic choices (solver-enumerated), so the
interleaving is an input of the exploration.  asyncio's FIFO ready queue makes everything between
two choices deterministic.

Worker-thread jobs are executed by the scheduler at the moment their gate opens (atomically);
when the awaiting task has been cancelled in the meantime the job is *orphaned*: it may still run
later (its thread had started) or never (it was still queued) - both are schedulable.
"""
import asyncio
import threading

from . import symx
from .symx import engine


class ThreadKill(BaseException):
    """Unwinds a parked worker thread at the end of a path."""


class Worker:
    """A job running in a real thread with strict hand-off: exactly one of (scheduler, worker) runs
    at any time.  The worker parks at every preemption point (a durable storage operation) until
    the scheduler resumes it."""

    def __init__(self, func, label):
        self.func, self.label = func, label
        self.to_worker = threading.Event()
        self.to_main = threading.Event()
        self.state = 'new'          # new / parked / done
        self.result = None
        self.error = None
        self.at = None
        self.kill = False
        self.thread = threading.Thread(target=self._run, daemon=True)

    def _run(self):
        CURRENT_WORKER.w = self
        try:
            self.result = self.func()
        except ThreadKill:
            pass
        except BaseException as e:   # noqa
            self.error = e
        self.state = 'done'
        self.to_main.set()

    def start(self):
        self.thread.start()
        self.to_main.wait()
        self.to_main.clear()

    def resume(self):
        self.to_worker.set()
        self.to_main.wait()
        self.to_main.clear()

    def park(self, at):
        self.state = 'parked'
        self.at = at
        self.to_main.set()
        self.to_worker.wait()
        self.to_worker.clear()
        if self.kill:
            raise ThreadKill()
        self.state = 'running'


CURRENT_WORKER = threading.local()


def preempt_point(at):
    """Called by the storage stubs before every durable operation."""
    w = getattr(CURRENT_WORKER, 'w', None)
    if w is not None:
        w.park(at)


class Gate:
    __slots__ = ('label', 'kind', 'fut', 'action', 'orphan', 'seq', 'done', 'cont')

    def __init__(self, label, kind, fut, action, seq):
        self.label, self.kind, self.fut, self.action, self.seq = label, kind, fut, action, seq
        self.orphan = False
        self.done = False
        self.cont = False


class Scheduler:
    def __init__(self, deviations=0, max_steps=400):
        self.loop = asyncio.new_event_loop()
        self.pending = []
        self.seq = 0
        self.workers = []
        self._fire = []
        self.deviations = deviations
        self.max_steps = max_steps
        self.steps = 0
        self.trace = []              # labels of opened gates / events, in order
        self.anytime = []            # external events that may be injected as a deviation: (label, fn, once)
        self.permanent = []          # like anytime, but kept across story steps (e.g. shutdown)
        self.choice_n = 0
        self.filter = None           # optional: callable(gate) -> bool, which gates count as deviation candidates
        self.frozen = []             # gates postponed by a deviation for a full round of timers
        self.held = []               # gates postponed only until no other call can run (before any timer fires)
        self.hold_mode = False       # offer the short postponement as a deviation too
        self.triggers = []           # [label_prefix, nth, fn]: fn() right after the nth gate with that label opens
        self.window = None           # steps after the first deviation within which further ones may happen
        self.first_dev_step = None

    # -- called from the stubs -----------------------------------------------------------------
    async def wait(self, label, kind='call', action=None):
        fut = self.loop.create_future()
        self.seq += 1
        g = Gate(label, kind, fut, action, self.seq)
        self.pending.append(g)
        try:
            return await fut
        except asyncio.CancelledError:
            if kind == 'job' and not g.done:
                g.orphan = True          # the job may already be running in its thread
            elif g in self.pending:
                self.pending.remove(g)
            raise

    def job(self, label, splittable=False):
        '''run_in_thread replacement.  Two gates per job (more when splittable: the job runs in a real
        thread that parks at every durable storage operation, each continuation is a gate): the job runs in its thread (executed by the
        scheduler when the first gate opens), and its result is delivered to the event loop when the
        second one opens - other callbacks may run in between, as with a real thread.'''
        async def run_in_thread(func, *args):
            name = f'{label}:{getattr(func, "__name__", "job")}'
            box = {}

            def run():
                try:
                    box['r'] = func(*args)
                except Exception as e:   # noqa - delivered at the second gate
                    box['e'] = e
            if splittable:
                return await self._split_job(name, func, args)
            try:
                await self.wait(name, 'job', run)
            except asyncio.CancelledError:
                raise
            await self.wait(name + ':result', 'deliver', None)
            if 'e' in box:
                raise box['e']
            return box.get('r')
        return run_in_thread

    async def _split_job(self, name, func, args):
        w = Worker(lambda: func(*args), name)
        self.workers.append(w)
        fut = self.loop.create_future()          # completes when the thread has finished

        def advance():
            if w.state == 'new':
                w.start()
            else:
                w.resume()
            if w.error is not None and not isinstance(w.error, Exception):
                raise w.error                     # Abort / Violation raised inside the job
            if w.state == 'parked':
                self.seq += 1
                g = Gate(f'{name}@{w.at}', 'job', None, advance, self.seq)
                g.orphan = True                   # result not delivered through this gate
                g.cont = True
                self.pending.append(g)
            elif not fut.done():
                fut.set_result(None)
        self.seq += 1
        g0 = Gate(name, 'job', None, advance, self.seq)
        g0.orphan = True
        g0.cont = True
        self.pending.append(g0)
        await fut                                 # a cancelled waiter leaves the thread running
        await self.wait(name + ':result', 'deliver', None)
        if w.error is not None:
            raise w.error
        return w.result

    def sleeper(self, label):
        async def sleep(delay=0, *a):
            return await self.wait(f'{label}:{delay}', 'time', None)
        return sleep

    # -- driving -------------------------------------------------------------------------------
    def settle(self):
        '''Run the loop until every task is parked.'''
        loop = self.loop
        for _ in range(10000):
            loop.call_soon(loop.stop)
            loop.run_forever()
            if not loop._ready:
                return
        raise RuntimeError('event loop does not settle')

    def open(self, g):
        self.pending.remove(g)
        if g in self.frozen:
            self.frozen.remove(g)
        if g in self.held:
            self.held.remove(g)
        g.done = True
        self.trace.append(g.label + (' (orphan)' if g.orphan and not g.cont else ''))
        for tr in list(self.triggers):
            if g.label.startswith(tr[0]):
                tr[1] -= 1
                if tr[1] <= 0:
                    self.triggers.remove(tr)
                    self._fire.append(tr[2])
        try:
            res = g.action() if g.action else None
        except (symx.Abort, symx.Violation):
            raise
        except BaseException as e:      # noqa - delivered to the awaiting task like a thread's exception
            if g.orphan or g.fut is None or g.fut.done():
                if not isinstance(e, Exception):
                    raise
                self.trace.append(f'orphan job raised {type(e).__name__}')
            else:
                g.fut.set_exception(e)
            return
        if not g.orphan and g.fut is not None and not g.fut.done():
            g.fut.set_result(res)

    def candidates(self):
        calls = [g for g in self.pending if g.kind != 'time' and g not in self.frozen and g not in self.held]
        # results of finished thread jobs are delivered first by default (FIFO among them)
        calls.sort(key=lambda g: (0 if g.kind == 'deliver' else 1, g.seq))
        times = [g for g in self.pending if g.kind == 'time']
        return calls, times

    def _after_open(self):
        self.settle()
        while self._fire:
            fn = self._fire.pop(0)
            fn()
            self.settle()

    def step(self, allow_time=True):
        """Open one gate.  Returns False when nothing can be opened."""
        self.settle()
        calls, times = self.candidates()
        default = calls[0] if calls else (times[0] if (times and allow_time) else None)
        options = []
        may_deviate = self.deviations > 0 and (
            self.window is None or self.first_dev_step is None or self.steps - self.first_dev_step <= self.window)
        if may_deviate:
            for g in calls:
                if (self.filter is None or self.filter(g)) and (len(calls) > 1 or times):
                    options.append(('freeze', g))
                    if self.hold_mode:
                        options.append(('hold', g))
            for g in (times if calls else times[1:]):
                options.append(('gate', g))
            for ev in self.anytime + self.permanent:
                options.append(('event', ev))
        if default is None and not options:
            return False
        self.steps += 1
        if self.steps > self.max_steps:
            raise RuntimeError('scheduler step bound exceeded: ' + ' | '.join(self.trace[-12:]))
        pick = 0
        if options:
            self.choice_n += 1
            n = len(options) + (1 if default is not None else 0)
            pick = engine().choice(f'sched{self.choice_n}', n)
            if default is None:
                pick += 1
        if pick == 0:
            self.open(default)
        else:
            self.deviations -= 1
            if self.first_dev_step is None:
                self.first_dev_step = self.steps
            kind, what = options[pick - 1]
            if kind == 'freeze':
                self.frozen.append(what)
                self.trace.append('postpone:' + what.label)
            elif kind == 'hold':
                self.held.append(what)
                self.trace.append('postpone-short:' + what.label)
            elif kind == 'gate':
                self.open(what)
            else:
                label, fn, once = what
                if once:
                    (self.anytime if what in self.anytime else self.permanent).remove(what)
                self.trace.append('event:' + label)
                fn()
        self._after_open()
        return True

    def run_until(self, pred, allow_time=True, limit=300):
        for _ in range(limit):
            self.settle()
            if pred():
                return True
            if not self.step(allow_time):
                return pred()
        # A busy loop: the last 240 gate labels are periodic (period <= 30) although no timer was allowed to
        # fire - with deterministic stubs the server is spinning without progress, which is a verdict about the
        # code and not a harness limit.  Anything else that exceeds the bound stays a harness error.
        tr = self.trace[-240:]
        if len(tr) == 240:
            for p in range(1, 31):
                if all(tr[i] == tr[i - p] for i in range(p, 240)):
                    engine().prove(False, 'the server spins: the same daemon calls / jobs repeat for ever without '
                                          'progress and without waiting', {'signature': 'livelock', 'cycle': tr[-p:]})
        raise RuntimeError('run_until: bound exceeded: ' + ' | '.join(self.trace[-12:]))

    def only_timers_pending(self):
        return all(g.kind == 'time' or g in self.frozen or g in self.held for g in self.pending)

    def thaw(self):
        '''The postponed gates become eligible again (FIFO).'''
        self.frozen = []
        self.held = []

    def release_held(self):
        self.held = []

    def open_timer(self, g):
        self.open(g)
        self._after_open()

    def drain_calls(self):
        '''FIFO until only timers (sleeps) are parked.'''
        return self.run_until(self.only_timers_pending, allow_time=False)

    def close(self):
        for w in self.workers:
            if w.state == 'parked':
                w.kill = True
                w.resume()
            if w.thread.is_alive():
                w.thread.join(5)
        try:
            for t in asyncio.all_tasks(self.loop):
                t.cancel()
            self.loop.call_soon(self.loop.stop)
            self.loop.run_forever()
        except BaseException:   # noqa
            pass
        try:
            self.loop.close()
        except BaseException:   # noqa
            pass
