"""Symbolic-aware replacements for the C boundaries the ElectrumX code crosses, and the
import hook that loads /repo's modules with them in place.

Nothing under /repo is modified: modules are compiled from the files currently in /repo (own
filename, own line numbers) after one mechanical AST rewrite (``b''.join(x)`` ->
``__sx_join__(b'', x)``, the only construct that cannot be shadowed by a module global), with
``bytes``/``bytearray``/``memoryview`` shadowed as module globals, and with the struct / hash
entry points rebound by name after the module body has run.  Every shim falls through to the
real C function when its arguments are concrete.
"""
import array as _array
import ast
import builtins
import hashlib
import importlib.abc
import importlib.machinery
import importlib.util
import struct
import sys

import z3

from . import symx
from .symx import SBytes, SByteArray, SWord, SInt, SBool, Unencodable, engine

REPO_PKG = 'electrumx'

# ---------------------------------------------------------------------------------------------
# bytes / bytearray / memoryview shadows
# ---------------------------------------------------------------------------------------------


class _BytesMeta(type):
    def __instancecheck__(cls, x):
        return (isinstance(x, builtins.bytes) or
                (isinstance(x, SBytes) and not isinstance(x, SByteArray)))

    def __call__(cls, *a, **k):
        if len(a) == 1 and not k:
            x = a[0]
            if isinstance(x, SByteArray):
                return SBytes(list(x.c))
            if isinstance(x, SBytes):
                return x
            if isinstance(x, (SInt, SWord)):
                return builtins.bytes(x.__index__())
            if isinstance(x, (list, tuple)) and any(isinstance(i, SWord) for i in x):
                return symx.norm_bytes([i.e if isinstance(i, SWord) else i for i in x])
            if hasattr(x, '__next__') or isinstance(x, reversed):
                items = list(x)
                if any(isinstance(i, SWord) for i in items):
                    return symx.norm_bytes([i.e if isinstance(i, SWord) else i for i in items])
                return builtins.bytes(items)
        return builtins.bytes(*a, **k)


class sx_bytes(metaclass=_BytesMeta):
    fromhex = builtins.bytes.fromhex
    maketrans = builtins.bytes.maketrans


class _ByteArrayMeta(type):
    def __instancecheck__(cls, x):
        return isinstance(x, (builtins.bytearray, SByteArray))

    def __call__(cls, *a, **k):
        if engine() is not None and engine().concrete is None:
            if not a:
                return SByteArray([])
            if len(a) == 1 and isinstance(a[0], (SBytes, builtins.bytes, builtins.bytearray)):
                return SByteArray(list(SBytes.of(a[0]).c))
        return builtins.bytearray(*a, **k)


class sx_bytearray(metaclass=_ByteArrayMeta):
    fromhex = builtins.bytearray.fromhex


class _MemoryViewMeta(type):
    def __instancecheck__(cls, x):
        return isinstance(x, (builtins.memoryview, SBytes))

    def __call__(cls, x):
        if isinstance(x, SBytes):
            return x
        return builtins.memoryview(x)


class sx_memoryview(metaclass=_MemoryViewMeta):
    pass


class _IntMeta(type):
    def __instancecheck__(cls, x):
        return isinstance(x, (builtins.int, SInt, SWord))

    def __call__(cls, *a, **k):
        if len(a) == 1 and not k and isinstance(a[0], (SInt, SWord)):
            x = a[0]
            if isinstance(x, SInt) and not x.e.is_int():
                raise Unencodable('int() of a symbolic real')
            return x
        return builtins.int(*a, **k)


class sx_int(metaclass=_IntMeta):
    '''int() that leaves symbolic integers symbolic instead of enumerating them.'''
    from_bytes = builtins.int.from_bytes


def sx_isinstance(x, cls):
    if isinstance(x, (SInt, SWord)):
        if cls is int or cls is sx_int or (isinstance(cls, tuple) and (int in cls or sx_int in cls)):
            return True
    return builtins.isinstance(x, cls)


def _float_shim(name):
    import math
    real = getattr(math, name)

    def shim(*args):
        if any(isinstance(a, (SInt, SWord)) for a in args):
            raise Unencodable(f'floating-point math.{name} on a symbolic integer')
        return real(*args)
    shim.__sx_shim__ = True
    shim.__name__ = name
    return real, shim


_FLOAT_FUNCS = {n: _float_shim(n) for n in ('log', 'log2', 'log10', 'log1p', 'sqrt', 'exp', 'pow', 'ceil', 'floor')}
sx_log = _FLOAT_FUNCS['log'][1]


class _MathShim:
    """Stands for the math module inside /repo modules: floating-point functions on symbolic integers are
    not encodable (the kernel's labelled concrete fallback takes over); everything else is the real module."""

    def __getattr__(self, k):
        import math
        if k in _FLOAT_FUNCS:
            return _FLOAT_FUNCS[k][1]
        return getattr(math, k)


def patch_math_names(mod):
    import math
    d = mod.__dict__
    for n, (real, shim) in _FLOAT_FUNCS.items():
        if d.get(n) is real:
            d[n] = shim
    for k, v in list(d.items()):
        if v is math:
            d[k] = _MathShim()


NO_ORDER_MODULES = {'electrumx.server.history', 'electrumx.server.db'}


def sx_sorted_unordered(iterable, **kw):
    '''sorted() for the batch-building loops of history.py / db.py: when the keys are symbolic
    byte strings the items are returned in insertion order instead of forking over every
    ordering.  Sound for loops whose iterations commute (puts/deletes of distinct keys into one
    atomic batch) - recorded as an assumption in the evidence.'''
    items = list(iterable)
    if kw or not any(isinstance(i, SBytes) and not i.is_concrete() for i in items):
        return builtins.sorted(items, **kw)
    eng = engine()
    if eng is not None:
        eng.assumptions_used.add(
            'sorted() over symbolic keys in History.flush / History.backup / DB.flush_utxo_db iterates in '
            'insertion order (the loop bodies put/delete distinct keys into one atomic batch, so their order '
            'is immaterial)')
    return items


def sx_join(sep, items):
    items = list(items)
    if not any(isinstance(i, SBytes) for i in items):
        return sep.join(items)
    out = []
    for n, i in enumerate(items):
        if n and len(sep):
            out += list(sep)
        out += SBytes.of(i).c
    return SBytes(out)


# ---------------------------------------------------------------------------------------------
# struct
# ---------------------------------------------------------------------------------------------

_FMT = {
    # name suffix -> (nbytes, byteorder, signed)
    'le_int32': (4, 'little', True), 'le_int64': (8, 'little', True),
    'le_uint16': (2, 'little', False), 'le_uint32': (4, 'little', False),
    'le_uint64': (8, 'little', False), 'be_uint16': (2, 'big', False),
    'be_uint32': (4, 'big', False), 'byte': (1, 'little', False),
}


def _pack_sym(v, n, order, signed):
    bits = 8 * n
    eng = engine()
    if isinstance(v, SWord):
        if v.signed == signed and v.bits <= bits:
            e = symx._ext(v.e, bits, signed)
        elif not v.signed and signed and v.bits < bits:
            e = symx._ext(v.e, bits, False)
        else:
            # range check is a fork: out of range raises struct.error like the C code
            lo, hi = (-(1 << (bits - 1)), (1 << (bits - 1)) - 1) if signed else (0, (1 << bits) - 1)
            if not (v >= lo and v <= hi):
                raise struct.error('argument out of range')
            w = max(v.bits, bits)
            e = z3.Extract(bits - 1, 0, symx._ext(v.e, w, v.signed))
    elif isinstance(v, SInt):
        lo, hi = (-(1 << (bits - 1)), (1 << (bits - 1)) - 1) if signed else (0, (1 << bits) - 1)
        if not (v >= lo and v <= hi):
            raise struct.error('argument out of range')
        e = z3.Int2BV(v.e, bits)
    else:
        raise TypeError(type(v))
    e = z3.simplify(e)
    cells = [z3.simplify(z3.Extract(8 * i + 7, 8 * i, e)) for i in range(n)]
    if order == 'big':
        cells.reverse()
    return symx.norm_bytes(cells)


def _unpack_sym(cells, n, order, signed):
    if all(isinstance(x, int) for x in cells):
        return int.from_bytes(builtins.bytes(cells), order, signed=signed)
    cs = [symx._cell(x) for x in cells]
    if order == 'little':
        cs = cs[::-1]
    e = z3.Concat(*cs) if n > 1 else cs[0]
    return SWord(z3.simplify(e), signed)


def make_pack(real, n, order, signed):
    def pack(v):
        if isinstance(v, (SWord, SInt)):
            return _pack_sym(v, n, order, signed)
        return real(v)
    pack.__sx_shim__ = True
    return pack


def make_unpack(real, n, order, signed):
    def unpack(b):
        if isinstance(b, SBytes):
            if len(b) != n:
                raise struct.error(f'unpack requires a buffer of {n} bytes')
            return (_unpack_sym(b.c, n, order, signed),)
        return real(b)
    unpack.__sx_shim__ = True
    return unpack


def make_unpack_from(real, n, order, signed):
    def unpack_from(buf, offset=0):
        if isinstance(buf, SBytes):
            if isinstance(offset, (SInt, SWord)):
                offset = offset.__index__()
            if offset < 0:
                offset += len(buf)
                if offset < 0:
                    raise struct.error('offset out of range')
            if offset + n > len(buf):
                raise struct.error(f'unpack_from requires a buffer of at least {offset + n} bytes')
            return (_unpack_sym(buf.c[offset:offset + n], n, order, signed),)
        return real(buf, offset)
    unpack_from.__sx_shim__ = True
    return unpack_from


def patch_struct_names(mod):
    d = mod.__dict__
    for name, val in list(d.items()):
        if getattr(val, '__sx_shim__', False):
            continue
        if name.startswith('unpack_') and name.endswith('_from') and name[7:-5] in _FMT:
            d[name] = make_unpack_from(val, *_FMT[name[7:-5]])
        elif name.startswith('unpack_') and name[7:] in _FMT:
            d[name] = make_unpack(val, *_FMT[name[7:]])
        elif name.startswith('pack_') and name[5:] in _FMT:
            d[name] = make_pack(val, *_FMT[name[5:]])


# ---------------------------------------------------------------------------------------------
# hash functions: real on concrete input, injective uninterpreted function on symbolic input
# ---------------------------------------------------------------------------------------------

class HashModel:
    """A hash function: the real one on concrete input; on symbolic input an uninterpreted
    function H_n : BitVec(8n) -> BitVec(8*outlen) applied to the input term (so equal inputs
    give equal outputs by congruence, without forking), with injectivity instantiated pairwise
    over all applications made so far on the path (collision freedom), and tied to the real
    hash wherever the symbolic input equals a concrete input seen on the path.  Any *prefix* of
    the output stays free, so truncated-hash collisions are found by the solver."""

    def __init__(self, name, real, outlen=32):
        self.name = name
        self.real = real
        self.outlen = outlen
        self.injective = True
        self._ufs = {}

    def table(self):
        return engine().path_local.setdefault(('hash', self.name), [])

    def uf(self, n):
        f = self._ufs.get(n)
        if f is None:
            f = self._ufs[n] = z3.Function(f'{self.name}_{n}', z3.BitVecSort(8 * n),
                                           z3.BitVecSort(8 * self.outlen))
        return f

    def _note_concrete(self, xb, out):
        tab = self.table()
        for kind, i, _o, _t in tab:
            if kind == 'c' and i == xb:
                return
        eng = engine()
        if self.injective:
            for kind, i, o, t in tab:
                if kind == 's' and len(i) == len(xb):
                    eq = i._eq_term(xb)
                    oeq = t == z3.BitVecVal(int.from_bytes(out, 'big'), 8 * self.outlen)
                    eng.assume(eq == oeq if not isinstance(eq, bool) else (oeq if eq else z3.Not(oeq)))
                elif kind == 's':
                    eng.assume(t != z3.BitVecVal(int.from_bytes(out, 'big'), 8 * self.outlen))
        tab.append(('c', xb, out, None))

    def __call__(self, x):
        eng = engine()
        if eng is None or eng.concrete is not None:
            pres = getattr(eng, 'prescribed_hashes', None) if eng is not None else None
            xb = builtins.bytes(x)
            if pres and (self.name, xb) in pres:
                return pres[(self.name, xb)]
            return self.real(xb)
        if isinstance(x, (builtins.bytes, builtins.bytearray, builtins.memoryview)):
            xb = builtins.bytes(x)
            out = self.real(xb)
            self._note_concrete(xb, out)
            return out
        if not isinstance(x, SBytes):
            raise TypeError(type(x))
        if x.is_concrete():
            xb = x.concrete()
            out = self.real(xb)
            self._note_concrete(xb, out)
            return SBytes(list(out))
        n = len(x)
        xt = symx.wide_term(x)
        t = self.uf(n)(xt)
        m = self.outlen
        out = symx.bytes_of_term(t, m)
        tab = self.table()
        if self.injective:
            for kind, i, o, ot in tab:
                if kind == 's':
                    if len(i) != n:
                        eng.assume(ot != t)
                    elif not z3.eq(ot, t):
                        eq = x._eq_term(i)
                        if eq is not True:
                            eng.assume(z3.Implies(t == ot, eq) if not isinstance(eq, bool) else t != ot)
                else:
                    ov = z3.BitVecVal(int.from_bytes(o, 'big'), 8 * m)
                    if len(i) != n:
                        eng.assume(t != ov)
                    else:
                        eq = x._eq_term(i)
                        eng.assume(eq == (t == ov) if not isinstance(eq, bool) else ((t == ov) if eq else (t != ov)))
            eng.assumptions_used.add(
                f'{self.name} on symbolic input modelled as an injective uninterpreted function '
                '(collision-free; output prefixes unconstrained)')
        else:
            eng.assumptions_used.add(
                f'{self.name} on symbolic input modelled as an uninterpreted function (congruence only)')
        tab.append(('s', x, out, t))
        eng.hash_outputs.append((self.name, x, out))
        return out


def _real_sha256(x):
    return hashlib.sha256(x).digest()


def _real_dsha256(x):
    return hashlib.sha256(hashlib.sha256(x).digest()).digest()


SHA256 = HashModel('sha256', _real_sha256)
DSHA256 = HashModel('double_sha256', _real_dsha256)


class _HashlibSha256:
    '''Stand-in for hashlib.sha256 in modules that call sha256(x).digest().'''
    __sx_shim__ = True

    def __init__(self, x=b''):
        self.x = x

    def digest(self):
        return SHA256(self.x)

    def hexdigest(self):
        d = self.digest()
        return d.hex()


def sx_sha256(x):
    return SHA256(x)


def sx_double_sha256(x):
    return DSHA256(x)


sx_sha256.__sx_shim__ = True
sx_double_sha256.__sx_shim__ = True


def patch_hash_names(mod):
    d = mod.__dict__
    name = mod.__name__
    if name == 'electrumx.lib.hash':
        d['sha256'] = sx_sha256
        d['double_sha256'] = sx_double_sha256
        return
    if d.get('sha256') is hashlib.sha256:
        d['sha256'] = _HashlibSha256


# ---------------------------------------------------------------------------------------------
# array / array.array
# ---------------------------------------------------------------------------------------------

class SArray(list):
    '''array('Q') whose items may be SWord; only what the code uses.'''
    itemsize = 8

    def frombytes(self, b):
        b = SBytes.of(b)
        assert len(b) % 8 == 0
        for i in range(0, len(b), 8):
            self.append(_unpack_sym(b.c[i:i + 8], 8, 'little', False))

    def tobytes(self):
        out = []
        for x in self:
            out += SBytes.of(_pack_sym(x, 8, 'little', False) if isinstance(x, (SWord, SInt))
                             else struct.pack('<Q', x)).c
        return symx.norm_bytes(out)


def sx_array(typecode, init=None):
    if typecode != 'Q':
        return _array.array(typecode) if init is None else _array.array(typecode, init)
    if init is None:
        return _DeferredArray()
    if isinstance(init, SBytes):
        if init.is_concrete():
            return _array.array('Q', init.concrete())
        a = SArray()
        a.frombytes(init)
        return a
    return _array.array('Q', init)


sx_array.__sx_shim__ = True


class _DeferredArray:
    '''array('Q') created empty: becomes a real array or an SArray at frombytes().'''

    def __init__(self):
        self.a = _array.array('Q')

    def frombytes(self, b):
        if isinstance(b, SBytes):
            if b.is_concrete():
                self.a.frombytes(b.concrete())
            else:
                s = SArray(self.a)
                s.frombytes(b)
                self.a = s
        else:
            self.a.frombytes(b)

    def __len__(self):
        return len(self.a)

    def __getitem__(self, i):
        return self.a[i]

    def __iter__(self):
        return iter(self.a)


class _ArrayModule:
    array = staticmethod(sx_array)
    ArrayType = _array.ArrayType


def patch_array_names(mod):
    d = mod.__dict__
    if d.get('array') is _array:
        d['array'] = _ArrayModule
    elif d.get('array') is _array.array:
        d['array'] = sx_array


# ---------------------------------------------------------------------------------------------
# import hook
# ---------------------------------------------------------------------------------------------

class _JoinRewriter(ast.NodeTransformer):
    def visit_Call(self, node):
        self.generic_visit(node)
        f = node.func
        if (isinstance(f, ast.Attribute) and f.attr == 'join' and isinstance(f.value, ast.Constant)
                and isinstance(f.value.value, builtins.bytes)):
            return ast.copy_location(
                ast.Call(func=ast.Name('__sx_join__', ast.Load()), args=[f.value] + node.args,
                         keywords=[]), node)
        return node


LOADED = {}          # module name -> source path (what was actually instrumented)
POST_IMPORT = []     # extra callbacks(mod)


class _Loader(importlib.machinery.SourceFileLoader):
    def source_to_code(self, data, path, *, _optimize=-1):
        tree = ast.parse(data, path)
        tree = _JoinRewriter().visit(tree)
        ast.fix_missing_locations(tree)
        return compile(tree, path, 'exec', dont_inherit=True, optimize=_optimize)

    def get_code(self, fullname):
        # never use / write .pyc: the code must come from the current source
        path = self.get_filename(fullname)
        return self.source_to_code(self.get_data(path), path)

    def exec_module(self, module):
        d = module.__dict__
        d['__sx_join__'] = sx_join
        d['bytes'] = sx_bytes
        d['bytearray'] = sx_bytearray
        d['memoryview'] = sx_memoryview
        d['isinstance'] = sx_isinstance
        d['int'] = sx_int
        if module.__name__ in NO_ORDER_MODULES:
            d['sorted'] = sx_sorted_unordered
        super().exec_module(module)
        patch_math_names(module)
        patch_struct_names(module)
        patch_hash_names(module)
        patch_array_names(module)
        LOADED[module.__name__] = getattr(module, '__file__', None)
        for cb in POST_IMPORT:
            cb(module)


class _Finder(importlib.abc.MetaPathFinder):
    def find_spec(self, fullname, path, target=None):
        if fullname != REPO_PKG and not fullname.startswith(REPO_PKG + '.'):
            return None
        spec = importlib.machinery.PathFinder.find_spec(fullname, path)
        if spec is None or not spec.origin or not spec.origin.endswith('.py'):
            return spec
        spec.loader = _Loader(fullname, spec.origin)
        return spec


_installed = False


def install():
    '''Install the import hook.  Must run before any electrumx module is imported.'''
    global _installed
    if _installed:
        return
    already = [m for m in sys.modules if m == REPO_PKG or m.startswith(REPO_PKG + '.')]
    if already:
        raise RuntimeError(f'electrumx modules imported before the hook: {already[:3]}')
    sys.meta_path.insert(0, _Finder())
    _installed = True
