"""Drives the real asynchronous shell of the block processor - fetch_and_process_blocks,
next_block_hashes, advance_blocks, reorg_chain, _reorg_hashes, _calc_reorg_range, on_caught_up,
flush_if_safe - on a real asyncio event loop, against a fake daemon that serves a block tree.

What is stubbed (environment): the daemon RPCs (FakeDaemon), the block prefetcher / block files
(FakeODB replaces OnDiskBlock: blocks are the StubBlocks of vlib.chain, served by hash - the
parser is C13's subject, the daemon transport C18's), worker threads (run inline) and the
5 s poll sleep, which is where the harness injects the next external event (the daemon's chain
grows or switches branch, an operator forces a reorg, shutdown).
"""
import asyncio

from . import symx, chain
from .symx import engine


class Livelock(Exception):
    pass


def hexh(b):
    return bytes(reversed(bytes(b))).hex()


class FakeDaemon:
    def __init__(self):
        self.chain = []          # current best chain: list of RBlock
        self.by_hash = {}        # hex hash -> RBlock, every block ever announced
        self._cached = None
        self.calls = []

    def set_chain(self, blocks):
        self.chain = list(blocks)
        for b in blocks:
            self.by_hash[hexh(b.hash)] = b

    async def height(self):
        self._cached = len(self.chain) - 1
        self.calls.append(('height', self._cached))
        if len(self.calls) > 400:
            raise Livelock('the block processor keeps asking the daemon without ever becoming idle '
                           '(it never catches up)')
        return self._cached

    def cached_height(self):
        return self._cached

    async def block_hex_hashes(self, first, count):
        self.calls.append(('block_hex_hashes', first, count))
        out = [hexh(b.hash) for b in self.chain[first:first + count]]
        if len(out) != count:
            raise RuntimeError(f'daemon asked for {count} hashes from {first}, has {len(self.chain)} blocks')
        return out


def make_fake_odb(daemon, on_fetch=None):
    class FakeODB:
        blocks = {}
        tasks = {}
        log_block = False
        daemon_ = daemon
        state = None
        path = 'meta/blocks'

        @classmethod
        async def scan_files(cls):
            return None

        @classmethod
        async def prefetch_many(cls, d, pairs, kind):
            for height, hex_hash in pairs:
                b = daemon.by_hash.get(hex_hash)
                if b is not None:
                    cls.blocks[hex_hash] = (height, b.size)

        @classmethod
        async def streamed_block(cls, hex_hash):
            item = cls.blocks.get(hex_hash)
            if not item:
                return None
            b = daemon.by_hash[hex_hash]
            if on_fetch:
                on_fetch(b)
            return b.stub

        @classmethod
        async def delete_blocks(cls, min_height, log):
            for hh in [hh for hh, (h, _s) in cls.blocks.items() if h < min_height]:
                cls.blocks.pop(hh)

        @classmethod
        async def stop_prefetching(cls):
            return None
    return FakeODB


class Recorder:
    '''Stands in for Notifications: records what the block processor reports.'''
    def __init__(self):
        self.blocks = []

    async def on_block(self, touched, height):
        self.blocks.append((height, set(touched)))


class Shell:
    '''One "process lifetime" of the block processor on sim's persistent world.'''

    def __init__(self, sim, daemon, notifications=None):
        self.sim = sim
        self.daemon = daemon
        self.notifications = notifications or Recorder()
        self.events = []
        self.polls = 0
        self.stopped = False
        self.before_block = None      # callable(shell, RBlock) before each block is handed out
        self.on_install = []          # callables(shell) run after the objects are constructed

    def _install(self):
        import electrumx.server.block_processor as bpmod
        import electrumx.server.db as dbmod
        chain.patch_sync()
        sim = self.sim
        sim._close_db()
        sim.daemon = self.daemon
        sim.env, sim.db = sim.world.new_db()
        self.bpmod = bpmod
        self.odb = make_fake_odb(self.daemon, lambda b: self.before_block and self.before_block(self, b))
        bpmod.OnDiskBlock = self.odb
        sim.bp = self.bp = bpmod.BlockProcessor(sim.env, sim.db, self.daemon, self.notifications)
        shell = self

        async def sleep(delay, *a):
            if delay == bpmod.BlockProcessor.polling_delay:
                await shell._poll()
            return None
        bpmod.sleep = sleep
        for cb in self.on_install:
            cb(self)
        if symx.native():
            async def inline(func, *args):
                return func(*args)
            bpmod.run_in_thread = inline
            dbmod.run_in_thread = inline

    async def _poll(self):
        self.polls += 1
        if self.polls > 50:
            raise RuntimeError('shell did not become idle')
        if not self.events:
            self.stopped = True
            self.shutdown_event.set()
            raise asyncio.CancelledError()
        ev = self.events.pop(0)
        ev(self)

    def run(self, events):
        '''Start the processor (open_for_sync, sync, polls).  At each poll the next event is
        applied; when none is left the task is cancelled with shutdown set (clean stop).'''
        self._install()
        self.events = list(events)
        loop = asyncio.new_event_loop()
        try:
            self.shutdown_event = asyncio.Event()
            self.caught_up_event = asyncio.Event()
            coro = self.bp.fetch_and_process_blocks(self.caught_up_event, self.shutdown_event)
            loop.run_until_complete(coro)
        finally:
            try:
                loop.run_until_complete(loop.shutdown_asyncgens())
            except BaseException:   # noqa
                pass
            loop.close()
        return self
