"""The real components wired together as Controller.serve does - DB, BlockProcessor, Notifications
(implementing the MemPoolAPI), MemPool, SessionManager, ElectrumX sessions - on the gate scheduler
of vlib.gates, against a fake daemon that serves a block tree and a mempool.

Stubbed (environment, each call a gate): daemon RPCs, block prefetch / block files (FakeODB serves
the StubBlocks of vlib.chain by hash), worker threads (jobs executed by the scheduler), sleeps
(timers opened by the scheduler), the mempool's transaction parser (prepared Tx objects; the
parser is C13's subject), the sessions' transport (notifications are captured).
"""
import asyncio
import logging

from . import symx, chain, gates
from .shell import hexh
from .symx import engine


class GDaemon:
    '''Fake daemon; every RPC parks at a gate and answers from the state at release time.'''

    def __init__(self, sched):
        self.s = sched
        self.chain = []
        self.by_hash = {}
        self.mempool = []          # prepared RTx objects
        self._cached = None

    def set_chain(self, blocks):
        self.chain = list(blocks)
        for b in blocks:
            self.by_hash[hexh(b.hash)] = b
        confirmed = {id(t) for b in blocks for t in b.txs}
        self.mempool = [t for t in self.mempool if id(t) not in confirmed]

    async def height(self):
        await self.s.wait('daemon:height')
        self._cached = len(self.chain) - 1
        return self._cached

    def cached_height(self):
        return self._cached

    async def block_hex_hashes(self, first, count):
        await self.s.wait(f'daemon:block_hex_hashes({first},{count})')
        out = [hexh(b.hash) for b in self.chain[first:first + count]]
        if len(out) != count:
            # bitcoind answers "Block height out of range" for the missing ones
            from electrumx.server.daemon import DaemonError
            raise DaemonError([{'code': -8, 'message': 'Block height out of range'}])
        return out

    async def mempool_hashes(self):
        await self.s.wait('daemon:mempool_hashes')
        return [hexh(t.hash) for t in self.mempool]

    async def get_block(self, hex_hash, filename):
        '''Daemon.get_block: streams the block to the file, returns its size.'''
        await self.s.wait(f'daemon:get_block({hex_hash[:8]})')
        import electrumx.lib.util as util
        b = self.by_hash[hex_hash]
        with util.open_truncate(filename) as f:
            f.write(b.raw)
        return len(b.raw)

    async def getrawtransactions(self, hex_hashes, replace_errs=True):
        hex_hashes = list(hex_hashes)
        await self.s.wait(f'daemon:getrawtransactions({len(hex_hashes)})')
        present = {hexh(t.hash): t for t in self.mempool}
        return [(b'RAW' + bytes(present[h].hash)) if h in present else None for h in hex_hashes]


def make_gated_odb(daemon, sched):
    class FakeODB:
        blocks = {}
        tasks = {}
        log_block = False
        state = None
        path = 'meta/blocks'

        @classmethod
        async def scan_files(cls):
            return None

        @classmethod
        async def prefetch_many(cls, d, pairs, kind):
            for height, hex_hash in pairs:
                b = daemon.by_hash.get(hex_hash)
                if b is not None:
                    cls.blocks[hex_hash] = (height, b.size)

        @classmethod
        async def streamed_block(cls, hex_hash):
            await sched.wait(f'block:{hex_hash[:8]}')
            item = cls.blocks.get(hex_hash)
            if not item:
                return None
            return daemon.by_hash[hex_hash].stub

        @classmethod
        async def delete_blocks(cls, min_height, log):
            for hh in [hh for hh, (h, _s) in cls.blocks.items() if h < min_height]:
                cls.blocks.pop(hh)

        @classmethod
        async def stop_prefetching(cls):
            return None
    return FakeODB


class Client:
    '''A real ElectrumX session without a transport; what it is sent is captured.'''

    def __init__(self, fs, n):
        import electrumx.server.session as smod
        s = smod.ElectrumX.__new__(smod.ElectrumX)
        self.s = s
        self.fs = fs
        s.session_mgr, s.db, s.mempool = fs.mgr, fs.sim.db, fs.mempool
        s.peer_mgr = fs.mgr.peer_mgr
        s.env, s.coin, s.kind = fs.sim.env, fs.sim.env.coin, 'TCP'
        s.bump_cost = lambda c: None
        s.hashX_subs, s.mempool_statuses = {}, {}
        s.subscribe_headers = False
        s.logger = logging.getLogger('verif')
        s.session_id = n
        self.sent = []             # (method, args, db height when sent)
        self.status = {}           # alias -> last status held (subscribe reply or notification)
        self.header = None         # last header notification / subscribe reply
        client = self

        async def send_notification(method, args):
            client.sent.append((method, args, fs.sim.db.state.height))
            if method == 'blockchain.scripthash.subscribe':
                client.status[args[0]] = args[1]
            elif method == 'blockchain.headers.subscribe':
                client.header = args[0]
        s.send_notification = send_notification

        async def close(**kw):
            return None
        s.close = close
        fs.mgr.sessions[s] = []


class FullSim:
    def __init__(self, sim, deviations=0, with_sessions=True, max_steps=600, split_jobs=False, real_odb=False,
                 chunk_size=None):
        self.sim = sim
        self.sched = gates.Scheduler(deviations, max_steps)
        self.daemon = GDaemon(self.sched)
        self.with_sessions = with_sessions
        self.clients = []
        self.tasks = {}
        self.errors = []
        self.prepared = {}         # placeholder raw -> RTx
        self.split_jobs = split_jobs
        self.real_odb = real_odb      # keep the real OnDiskBlock (prefetcher, block files, parser)
        self.chunk_size = chunk_size
        self.stopped = False

    # -- construction --------------------------------------------------------------------------
    def start(self):
        import electrumx.server.block_processor as bpmod
        import electrumx.server.db as dbmod
        import electrumx.server.mempool as mpmod
        import electrumx.server.controller as cmod
        import electrumx.server.session as smod
        sim, sched = self.sim, self.sched
        logging.disable(logging.CRITICAL)
        asyncio.set_event_loop(sched.loop)
        sim._close_db()
        sim.daemon = self.daemon
        bpmod.run_in_thread = sched.job('bp', splittable=self.split_jobs)
        sim.world.durable.preempt = gates.preempt_point if self.split_jobs else None
        sim.world.durable.preempt_reads = self.split_jobs == 'reads'
        dbmod.run_in_thread = sched.job('db')
        mpmod.run_in_thread = sched.job('mp')
        bpmod.sleep = sched.sleeper('bp.sleep')
        mpmod.sleep = sched.sleeper('mp.sleep')
        dbmod.sleep = sched.sleeper('db.sleep')
        if self.real_odb:
            if not hasattr(bpmod, '_verif_real_odb'):
                bpmod._verif_real_odb = bpmod.OnDiskBlock
            odb = self.odb = bpmod.OnDiskBlock = bpmod._verif_real_odb
            odb.blocks, odb.tasks, odb.log_block, odb.daemon, odb.state = {}, {}, False, None, None
            # the read chunk (25 MB in the code, which is parametric in it) can be scaled down so that ordinary test
            # blocks span several chunks
            odb.chunk_size = getattr(self, 'chunk_size', None) or 25_000_000
            import aiorpcx
            bpmod.spawn = aiorpcx.spawn
        else:
            self.odb = bpmod.OnDiskBlock = make_gated_odb(self.daemon, sched)
        fs = self

        def read_tx(raw, cursor):
            t = fs.prepared[bytes(raw)]
            return t.tx, 100
        mpmod.read_tx = read_tx
        sim.env, sim.db = sim.world.new_db()
        db = sim.db
        self.notifications = n = cmod.Notifications()
        sim.bp = self.bp = bpmod.BlockProcessor(sim.env, db, self.daemon, n)
        daemon = self.daemon
        n.height = daemon.height
        n.db_height = lambda: db.state.height
        n.cached_height = daemon.cached_height
        n.mempool_hashes = daemon.mempool_hashes
        n.raw_transactions = daemon.getrawtransactions
        n.lookup_utxos = db.lookup_utxos
        mpmod.MemPoolAPI.register(cmod.Notifications)
        self.mempool = mpmod.MemPool(sim.env.coin, n)
        self.shutdown_event = asyncio.Event()
        self.caught_up_event = asyncio.Event()
        self.mempool_event = asyncio.Event()
        self.mgr = smod.SessionManager(sim.env, db, self.bp, daemon, self.mempool, self.shutdown_event)
        self.serving = False
        loop = sched.loop

        async def wait_for_catchup():
            await self.caught_up_event.wait()
            await db.populate_header_merkle_cache()
            if self.with_sessions:
                self.tasks['mempool'] = loop.create_task(self.mempool._refresh_hashes(self.mempool_event))

        async def serve():
            await self.mempool_event.wait()
            await n.start(db.state.height, self.mgr._notify_sessions)
            self.serving = True
            self.tasks['reorgs'] = loop.create_task(self.mgr._handle_chain_reorgs())
        # Controller.serve: "await daemon.height()" before the tasks are spawned, so that the daemon
        # has a cached height
        daemon._cached = len(daemon.chain) - 1
        self.tasks['bp'] = loop.create_task(self.bp.fetch_and_process_blocks(self.caught_up_event,
                                                                             self.shutdown_event))
        self.tasks['catchup'] = loop.create_task(wait_for_catchup())
        if self.with_sessions:
            self.tasks['serve'] = loop.create_task(serve())
        return self

    def shutdown(self):
        '''What the server does on SIGTERM: set the shutdown event and cancel every task.'''
        self.stopped = True
        self.shutdown_event.set()
        for t in self.tasks.values():
            t.cancel()

    def finish_shutdown(self):
        '''FIFO until the block processor's task has returned; then the worker threads that are
        still running finish (the executor joins them at interpreter exit).'''
        s = self.sched
        s.deviations_saved = s.deviations
        s.run_until(lambda: self.tasks['bp'].done() and s.only_timers_pending(), allow_time=False, limit=2000)
        s.deviations = 0
        s.thaw()
        s.run_until(lambda: all(g.kind == 'time' for g in s.pending), allow_time=False, limit=2000)
        t = self.tasks['bp']
        if not t.cancelled() and t.exception() is not None:
            raise t.exception()

    def add_mempool_tx(self, rt):
        self.prepared[b'RAW' + bytes(rt.hash)] = rt
        self.daemon.mempool.append(rt)

    def client(self):
        c = Client(self, len(self.clients))
        self.clients.append(c)
        return c

    def spawn(self, coro, label):
        '''A client request: runs as its own task; result or exception is recorded.'''
        out = {'label': label, 'done': False, 'result': None, 'error': None}

        async def run():
            try:
                out['result'] = await coro
            except Exception as e:   # noqa
                out['error'] = e
            out['done'] = True
        self.sched.loop.create_task(run())
        return out

    # -- progress ------------------------------------------------------------------------------
    def check_tasks(self):
        if self.stopped:
            return
        for name, t in self.tasks.items():
            if t.done() and not t.cancelled():
                e = t.exception()
                if e is not None:
                    raise e

    def quiesce(self, rounds=3):
        '''FIFO until everything is parked on timers; then let every timer fire, `rounds` times.'''
        s = self.sched
        def drain():
            s.drain_calls()
            self.check_tasks()
            while s.held:
                # a briefly postponed gate runs as soon as every other call has drained, before the next timer
                s.release_held()
                s.drain_calls()
                self.check_tasks()
        for _ in range(rounds):
            drain()
            timers = [g for g in s.pending if g.kind == 'time']
            for g in timers:
                if g in s.pending:
                    s.open_timer(g)
                    drain()
            # a postponed gate is delayed by one full round of timers (poll + mempool refresh)
            if s.frozen:
                s.thaw()
                s.drain_calls()
                self.check_tasks()
        s.thaw()
        s.drain_calls()
        self.check_tasks()

    def close(self):
        self.sched.close()


def ref_status(sim, fs, chain_blocks, q):
    '''Protocol status of script hash q on the given chain + the daemon's mempool.  The mempool
    part follows the order in which the implementation lists the transactions (the protocol
    leaves it unordered); its content is the reference's.'''
    from electrumx.lib.hash import sha256, hash_to_hex_str
    conf = chain.expected_history(chain_blocks, q)
    live_mp = {bytes(t.hash): t for t in fs.daemon.mempool}
    exp_mp = {}
    for t in fs.daemon.mempool:
        touches = any(bool(o.hashX == q) for o in t.ins) or any(o.spendable and bool(o.hashX == q) for o in t.outs)
        if touches:
            has_ui = any(bytes(o.txhash) in live_mp for o in t.ins)
            exp_mp[bytes(t.hash)] = has_ui
    impl = chain.run_coro_plain(fs.mempool.transaction_summaries(q))
    impl_set = {bytes(s.hash): bool(s.has_unconfirmed_inputs) for s in impl}
    status = ''.join(f'{hash_to_hex_str(h)}:{ht:d}:' for h, ht in conf)
    status += ''.join(f'{hash_to_hex_str(s.hash)}:{-exp_mp.get(bytes(s.hash), False):d}:' for s in impl)
    return (sha256(status.encode()).hex() if status else None), impl_set == exp_mp
