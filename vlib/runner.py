"""Check driver: distributes the shapes of each kernel over worker processes, aggregates the
solver verdicts, replays candidate counterexamples natively, matches known findings, writes the
evidence file and sets the exit code.

Exit codes: 0 = every obligation explored was discharged (known findings are printed),
1 = a natively reproduced violation not listed in known_findings.json,
3 = harness error (non-reproducing counterexample, stub divergence, vacuous harness,
    inconclusive obligations on the unchanged tree).
"""
import argparse
import hashlib
import importlib
import json
import multiprocessing as mp
import os
import subprocess
import sys
import time
import traceback

VERIF = os.path.dirname(os.path.dirname(os.path.abspath(__file__)))
REPO = os.environ.get('VERIF_REPO', '/repo')
HARNESS_ERROR = 3


class Kernel:
    def __init__(self, name, fn, shapes, *, desc='', native=True, encodes=(), bounds='',
                 outside='', assumptions=(), max_paths=None, time_limit=None,
                 query_timeout_ms=30000, witnesses=2, setup=None, concrete_fallback=None, prescribe=(),
                 split_depth=None):
        self.name = name
        self.fn = fn                  # fn(shape) -> None, uses symx.engine()
        self.shapes = shapes          # callable(tier) -> list of JSON-able shapes
        self.desc = desc
        self.native = native          # can the scenario be re-run natively (replay / twin)?
        self.encodes = list(encodes)
        self.bounds = bounds
        self.outside = outside
        self.assumptions = list(assumptions)
        self.max_paths = max_paths
        self.time_limit = time_limit
        self.query_timeout_ms = query_timeout_ms
        self.witnesses = witnesses    # witnesses per shape replayed natively (twin validation)
        self.setup = setup
        self.concrete_fallback = concrete_fallback
        self.prescribe = set(prescribe)   # modelled hashes whose model values the native replay reuses
        self.split_depth = split_depth    # spread one shape over workers by its first k decisions


# ---------------------------------------------------------------------------------------------
# worker side
# ---------------------------------------------------------------------------------------------

def _start_coverage(found):
    mon = getattr(sys, 'monitoring', None)
    if mon is None:
        return None
    tool = mon.COVERAGE_ID
    try:
        mon.use_tool_id(tool, 'verif')
    except ValueError:
        return None
    prefix = REPO + '/'

    def on_start(code, offset):
        fn = code.co_filename
        if fn.startswith(prefix):
            found.add((fn[len(prefix):], code.co_qualname))
        return mon.DISABLE
    mon.register_callback(tool, mon.events.PY_START, on_start)
    mon.set_events(tool, mon.events.PY_START)
    return tool


def _stop_coverage(tool):
    if tool is not None:
        sys.monitoring.set_events(tool, 0)
        sys.monitoring.free_tool_id(tool)


def _load_prop(prop):
    sys.path.insert(0, VERIF) if VERIF not in sys.path else None
    return importlib.import_module(f'props.{prop.lower()}')


def worker(job):
    '''Runs one (kernel, shape) symbolically.  Executed in a fresh forked process.'''
    prop, kname, shape, opts = job
    t0 = time.time()
    out = {'kernel': kname, 'shape': shape, 'error': None, 'forced': bool(opts.get('forced'))}
    try:
        from vlib import shims, symx
        shims.install()
        mod = _load_prop(prop)
        k = {x.name: x for x in mod.KERNELS}[kname]
        found = set()
        tool = _start_coverage(found)
        eng = symx.Engine(query_timeout_ms=k.query_timeout_ms,
                          max_paths=opts.get('max_paths') or k.max_paths,
                          time_limit=opts.get('time_limit') or k.time_limit)
        eng.prescribe = set(k.prescribe)
        eng.cross_check = 2 if not opts.get('forced') else 0
        eng.want_witnesses = k.witnesses if k.native else 0
        eng.witnesses = []
        if k.setup:
            k.setup(shape)
        # a hard wall-clock bound per (kernel, shape) job: a hang becomes an inconclusive path
        import signal
        limit = int(os.environ.get('VERIF_SHAPE_TIMEOUT', '0') or 0) or (900 if opts.get('tier') == 'quick' else 5400)

        def on_alarm(signum, frame):
            eng.time_limit = 1e-9          # explore() stops after the current path
            raise symx.Abort('budget', f'shape wall-clock limit of {limit}s exceeded')
        signal.signal(signal.SIGALRM, on_alarm)
        signal.alarm(limit)

        def on_path(outcome):
            if outcome == 'complete' and len(eng.witnesses) < eng.want_witnesses:
                # spread the witnesses: take the first, then every (paths // want)th
                w = eng.reachable()
                if w is not None:
                    obs = [(lbl, symx.concretize(v, eng.model)) for lbl, v in eng.path_local.get('obs', [])]
                    eng.witnesses.append({'inputs': w, 'obs': _jsonable(obs)})
        if opts.get('frontier'):
            eng.split_depth = opts['frontier']
        if opts.get('forced'):
            for pre in opts['forced']:
                st = eng.explore(lambda: k.fn(shape), on_path=on_path, forced=pre)
                if eng.truncated:
                    break
        else:
            st = eng.explore(lambda: k.fn(shape), on_path=on_path)
        _stop_coverage(tool)
        out['frontier'] = eng.frontier
        out['cross'] = _cross_solve(eng.cross_dumps)
        out['stats'] = _jsonable(st.as_dict())
        out['truncated'] = eng.truncated
        out['functions'] = sorted(found)
        out['assumptions'] = sorted(eng.assumptions_used)
        out['witnesses'] = eng.witnesses
        out['inputs'] = {n: kind for n, (kind, _t) in eng.inputs.items()}
        if eng.fork_sites is not None:
            out['fork_sites'] = sorted(eng.fork_sites.items(), key=lambda kv: -kv[1])[:25]
    except BaseException as e:   # noqa
        out['error'] = ''.join(traceback.format_exception(type(e), e, e.__traceback__))[-4000:]
    out['wall_s'] = round(time.time() - t0, 3)
    return out


def _cross_solve(dumps):
    '''Re-decide dumped obligations (all answered unsat by z3 5.1) with the system z3 4.8.12.'''
    import shutil
    import tempfile
    res = {'checked': 0, 'agree': 0, 'disagree': 0, 'inconclusive': 0}
    z3bin = shutil.which('z3')
    if not z3bin or not dumps:
        return res
    for d in dumps:
        with tempfile.NamedTemporaryFile('w', suffix='.smt2', delete=False) as f:
            f.write(d)
            path = f.name
        try:
            p = subprocess.run([z3bin, '-T:20', path], capture_output=True, text=True, timeout=40)
            out = p.stdout.strip().splitlines()
            res['checked'] += 1
            if any('(error' in l for l in out) or not out:
                res['inconclusive'] += 1
            elif out[-1] == 'unsat':
                res['agree'] += 1
            elif out[-1] == 'sat':
                res['disagree'] += 1
            else:
                res['inconclusive'] += 1
        except Exception:   # noqa
            res['inconclusive'] += 1
        finally:
            os.unlink(path)
    return res


def _jsonable(x):
    if isinstance(x, dict):
        return {str(k): _jsonable(v) for k, v in x.items()}
    if isinstance(x, (list, tuple)):
        return [_jsonable(v) for v in x]
    if isinstance(x, (set, frozenset)):
        return sorted((_jsonable(v) for v in x), key=repr)
    if isinstance(x, (bytes, bytearray)):
        return {'bytes': bytes(x).hex()}
    if isinstance(x, float):
        return round(x, 6)
    if isinstance(x, (int, str, bool)) or x is None:
        return x
    return repr(x)


# ---------------------------------------------------------------------------------------------
# native replay (child process, no import hook, real struct/hashlib/LevelDB)
# ---------------------------------------------------------------------------------------------

def native_main(argv):
    '''python -m vlib.runner --native <prop> <file>: file holds a list of
    {kernel, shape, inputs}; prints one JSON line per item.'''
    prop, path = argv
    from vlib import symx
    mod = _load_prop(prop)
    ks = {x.name: x for x in mod.KERNELS}
    items = json.load(open(path))
    res = []
    for it in items:
        k = ks[it['kernel']]
        eng = symx.Engine()
        _install_prescription(it['inputs'].get('__hashes__') or [])
        if k.setup:
            k.setup(it['shape'])
        r = {'violation': None, 'error': None}
        try:
            v = eng.run_concrete(lambda: k.fn(it['shape']), it['inputs'])
            if v is not None:
                r['violation'] = {'label': v.label, 'detail': _jsonable(v.detail)}
        except symx.Abort as a:
            r['error'] = f'abort {a.kind} {a.msg}'
        except BaseException as e:   # noqa
            r['error'] = ''.join(traceback.format_exception(type(e), e, e.__traceback__))[-3000:]
        r['obs'] = _jsonable(eng.path_local.get('obs', []))
        res.append(r)
    print('NATIVE-RESULT ' + json.dumps(res))
    return 0


_REAL_HASHES = {}


def _install_prescription(table):
    '''Native replay of a counterexample that depends on values of a *modelled* hash (e.g. two
    scripts whose 11-byte script hashes collide): the listed (input -> output) pairs override
    the real function, every other input is hashed for real.'''
    import hashlib
    import electrumx.lib.hash as hmod
    import electrumx.lib.coins as cmod
    if not _REAL_HASHES:
        _REAL_HASHES['sha256'] = hmod.sha256
        _REAL_HASHES['coins'] = cmod.sha256
    pres = {bytes.fromhex(i): bytes.fromhex(o) for n, i, o in table if n == 'sha256'}

    def sha256(x):
        x = bytes(x)
        return pres[x] if x in pres else hashlib.sha256(x).digest()

    class _S:
        def __init__(self, x=b''):
            self.x = bytes(x)

        def digest(self):
            return sha256(self.x)
    if pres:
        hmod.sha256 = sha256
        cmod.sha256 = _S
    else:
        hmod.sha256 = _REAL_HASHES['sha256']
        cmod.sha256 = _REAL_HASHES['coins']


def run_native(prop, items, timeout=600):
    if not items:
        return []
    scratch = _scratch()
    path = os.path.join(scratch, f'native-{os.getpid()}-{time.time_ns()}.json')
    with open(path, 'w') as f:
        json.dump(items, f)
    env = dict(os.environ, VERIF_SCRATCH=scratch, PYTHONPATH=pythonpath())
    try:
        p = subprocess.run([sys.executable, '-m', 'vlib.runner', '--native', prop, path],
                           capture_output=True, text=True, timeout=timeout, cwd=VERIF, env=env)
    finally:
        os.unlink(path)
    for line in p.stdout.splitlines():
        if line.startswith('NATIVE-RESULT '):
            return json.loads(line[len('NATIVE-RESULT '):])
    raise RuntimeError(f'native replay failed: rc={p.returncode}\n{p.stdout[-2000:]}\n{p.stderr[-3000:]}')


def pythonpath():
    '''PYTHONPATH for child interpreters: /verif, preceded by the scratch repository copy if one is analysed.'''
    rp = os.environ.get('VERIF_REPO')
    return (rp + ':' if rp else '') + VERIF


def _scratch():
    d = os.environ.get('VERIF_SCRATCH') or os.path.join(
        os.environ.get('TMPDIR', '/tmp'), f'verif-scratch-{os.getuid()}')
    os.makedirs(d, exist_ok=True)
    return d


# ---------------------------------------------------------------------------------------------
# known findings
# ---------------------------------------------------------------------------------------------

def load_known(prop):
    p = os.path.join(VERIF, 'known_findings.json')
    if not os.path.exists(p):
        return []
    data = json.load(open(p))
    return [f for f in data.get('open', []) if f['property'] == prop]


def match_known(known, kernel, label, detail):
    '''A finding matches a violation when kernel and signature agree.  The signature is
    compared against the violation label (and optional detail signature) exactly.'''
    sig = (detail or {}).get('signature') if isinstance(detail, dict) else None
    for f in known:
        if f.get('kernel') not in (None, kernel):
            continue
        if f['signature'] == label or (sig is not None and f['signature'] == sig):
            return f
    return None


# ---------------------------------------------------------------------------------------------
# main driver
# ---------------------------------------------------------------------------------------------

def file_sha(path):
    try:
        return hashlib.sha256(open(path, 'rb').read()).hexdigest()[:16]
    except OSError:
        return None


def main(prop, argv=None):
    ap = argparse.ArgumentParser()
    ap.add_argument('--tier', default=os.environ.get('VERIF_TIER', 'quick'))
    ap.add_argument('--replay')
    ap.add_argument('--kernel', action='append')
    ap.add_argument('--jobs', type=int, default=int(os.environ.get('VERIF_JOBS', '16')))
    ap.add_argument('--max-paths', type=int)
    ap.add_argument('--no-evidence', action='store_true')
    ap.add_argument('--verbose', action='store_true')
    ap.add_argument('--target', action='append')
    args = ap.parse_args(argv)
    tier = args.tier if args.tier in ('quick', 'thorough') else 'quick'
    seed = int(os.environ.get('VERIF_SEED', '0') or 0)
    mod = _load_prop(prop)
    if hasattr(mod, 'CUSTOM_MAIN'):
        return mod.CUSTOM_MAIN(prop, argv if argv is not None else sys.argv[1:])
    if args.replay:
        return replay(prop, mod, args.replay)
    t0 = time.time()
    kernels = [k for k in mod.KERNELS if not args.kernel or k.name in args.kernel]
    jobs = []
    for k in kernels:
        for shape in k.shapes(tier):
            jobs.append((prop, k.name, shape, {'max_paths': args.max_paths, 'tier': tier}))
    ctx = mp.get_context('fork')
    results = []
    kmap0 = {k.name: k for k in kernels}
    jobs = [(p, kn, sh, dict(o, frontier=kmap0[kn].split_depth) if kmap0[kn].split_depth else o)
            for p, kn, sh, o in jobs]
    with ctx.Pool(args.jobs, maxtasksperchild=1) as pool:
        second = []
        for r in pool.imap_unordered(worker, jobs, chunksize=1):
            results.append(r)
            fr = r.get('frontier') or []
            nchunks = min(len(fr), 8)
            for c in range(nchunks):
                second.append((prop, r['kernel'], r['shape'],
                               {'max_paths': args.max_paths, 'forced': fr[c::nchunks], 'tier': tier}))
        for r in pool.imap_unordered(worker, second, chunksize=1):
            results.append(r)
    results.sort(key=lambda r: (r['kernel'], json.dumps(r['shape'], sort_keys=True)))
    t_explore = round(time.time() - t0, 1)
    if args.verbose:
        for r in results:
            st = r.get('stats') or {}
            print(f"  {r['kernel']} wall={r['wall_s']} frontier={len(r.get('frontier') or [])} forced={r.get('forced')} paths={st.get('paths')} queries={st.get('queries')} "
                  f"solver_s={round(st.get('solver_s', 0), 1)} shape={json.dumps(r['shape'])[:200]}")

    errors = [r for r in results if r['error']]
    agg = {}
    functions = set()
    assumptions = set()
    per_kernel = {}
    violations = []
    witnesses = []
    cross = {}
    for r in results:
        pk = per_kernel.setdefault(r['kernel'], {
            'shapes': 0, 'paths': 0, 'complete': 0, 'forked_paths': 0, 'aborted': {}, 'obligations': 0,
            'discharged': 0, 'inconclusive': 0, 'queries': 0, 'solver_s': 0.0, 'wall_s': 0.0,
            'truncated_shapes': 0, 'decisions': 0})
        pk['shapes'] += 0 if r.get('forced') else 1
        pk['wall_s'] = round(pk['wall_s'] + r['wall_s'], 3)
        if r['error']:
            continue
        st = r['stats']
        for key in ('paths', 'complete', 'forked_paths', 'obligations', 'discharged', 'inconclusive',
                    'queries', 'decisions'):
            pk[key] += st[key]
        pk['solver_s'] = round(pk['solver_s'] + st['solver_s'], 3)
        for a, n in st['aborted'].items():
            pk['aborted'][a] = pk['aborted'].get(a, 0) + n
        if r['truncated']:
            pk['truncated_shapes'] += 1
        functions.update(tuple(f) for f in r['functions'])
        assumptions.update(r['assumptions'])
        for v in st['violations']:
            violations.append((r['kernel'], r['shape'], v))
        for w in r['witnesses']:
            witnesses.append((r['kernel'], r['shape'], w))
        for key, v in (r.get('cross') or {}).items():
            cross[key] = cross.get(key, 0) + v

    kmap = {k.name: k for k in kernels}
    harness_errors = []
    for r in errors:
        harness_errors.append(f"worker error in {r['kernel']} shape {r['shape']}: {r['error'][-1500:]}")

    # -- twin validation / vacuity guard: witnesses of complete paths must run natively with the
    #    same observations and without violating the property
    twin_checked = twin_bad = 0
    native_items = [{'kernel': kn, 'shape': sh, 'inputs': w['inputs']} for kn, sh, w in witnesses]
    if native_items:
        try:
            nres = run_native(prop, native_items)
        except Exception as e:   # noqa
            nres = None
            harness_errors.append(f'native twin run failed: {e}')
        if nres is not None:
            for (kn, sh, w), nr in zip(witnesses, nres):
                twin_checked += 1
                if nr['error'] or nr['violation'] or nr['obs'] != w['obs']:
                    twin_bad += 1
                    harness_errors.append(
                        f'twin divergence in {kn} shape {sh}: native error={nr["error"]} '
                        f'violation={nr["violation"]} obs_equal={nr["obs"] == w["obs"]} '
                        f'inputs={json.dumps(w["inputs"])[:600]} sym_obs={json.dumps(w["obs"])[:400]} '
                        f'native_obs={json.dumps(nr["obs"])[:400]}')

    if cross.get('disagree'):
        harness_errors.append(f"second solver disagrees on {cross['disagree']} discharged obligation(s)")
    # -- vacuity: every kernel must have complete paths
    for kn, pk in per_kernel.items():
        if (pk['complete'] == 0 and not any(v[0] == kn for v in violations) and not errors
                and not (kmap[kn].concrete_fallback and pk['aborted'].get('unencodable'))):
            harness_errors.append(f'kernel {kn}: no complete path (vacuous harness)')

    # -- candidate counterexamples: replay natively before reporting
    known = load_known(prop)
    reported = []
    known_hits = []
    seen_sigs = set()
    cand = []
    for kn, sh, v in violations:
        k = kmap[kn]
        vsig = (kn, v['label'], json.dumps((v.get('detail') or {}).get('signature')
                                           if isinstance(v.get('detail'), dict) else None))
        if vsig in seen_sigs and sum(1 for x in cand if x['kernel'] == kn) >= 3:
            continue
        seen_sigs.add(vsig)
        cand.append({'kernel': kn, 'shape': sh, 'inputs': v['inputs'], 'label': v['label'],
                     'detail': v.get('detail'), 'notes': v.get('notes')})
    cand = cand[:24]
    to_replay = [it for it in cand if kmap[it['kernel']].native]
    nres = []
    if to_replay:
        try:
            nres = run_native(prop, to_replay)
        except Exception as e:   # noqa
            harness_errors.append(f'replay failed: {e}')
            to_replay = []
    nmap = {id(it): nr for it, nr in zip(to_replay, nres)}
    for item in cand:
        kn = item['kernel']
        if kmap[kn].native:
            nr = nmap.get(id(item))
            if nr is None:
                continue
            if not nr['violation']:
                harness_errors.append(
                    f'counterexample of {kn} ({item["label"]}) did not reproduce natively '
                    f'(error={nr["error"]}); inputs={json.dumps(item["inputs"])[:800]}')
                continue
            item['native'] = nr['violation']
            label = nr['violation']['label']
            detail = nr['violation'].get('detail')
        else:
            label, detail = item['label'], item.get('detail')
        f = match_known(known, kn, label, detail)
        if f:
            known_hits.append((f, item))
        else:
            reported.append(item)

    # -- fallbacks that are concrete (labelled so) ------------------------------------------
    fallback_notes = []
    for k in kernels:
        if k.concrete_fallback:
            pk = per_kernel.get(k.name, {})
            if pk.get('aborted', {}).get('unencodable'):
                fb = k.concrete_fallback()
                fallback_notes.append(fb['note'])
                for v in fb.get('violations', []):
                    f = match_known(known, k.name, v['label'], v.get('detail'))
                    item = {'kernel': k.name, 'shape': 'concrete-fallback', 'inputs': v['inputs'],
                            'label': v['label'], 'detail': v.get('detail')}
                    if f:
                        known_hits.append((f, item))
                    else:
                        reported.append(item)

    total = {key: sum(pk[key] for pk in per_kernel.values())
             for key in ('paths', 'complete', 'forked_paths', 'obligations', 'discharged', 'inconclusive',
                         'queries', 'decisions')}
    solver_s = round(sum(pk['solver_s'] for pk in per_kernel.values()), 3)
    inconclusive = total['inconclusive'] + sum(
        n for pk in per_kernel.values() for a, n in pk['aborted'].items() if a in ('unknown', 'budget'))
    unenc = sum(pk['aborted'].get('unencodable', 0) for pk in per_kernel.values())
    truncated = sum(pk['truncated_shapes'] for pk in per_kernel.values())
    wall = round(time.time() - t0, 2)

    # -- output ----------------------------------------------------------------------------
    rc = 0
    seen_known = set()
    for f, item in known_hits:
        if f['signature'] not in seen_known:
            seen_known.add(f['signature'])
            print(f"KNOWN-FINDING: property={prop} {f['signature']} -- {f.get('what', '')}")
    os.makedirs(os.path.join(VERIF, 'replays'), exist_ok=True)
    for n, item in enumerate(reported):
        path = os.path.join(VERIF, 'replays', f'{prop}-{item["kernel"]}-{n}.json')
        with open(path, 'w') as f:
            json.dump(item, f, indent=1)
        print(f'VIOLATION property={prop} replay={path}')
        print(f'  kernel={item["kernel"]} label={item["label"]} shape={json.dumps(item["shape"])}')
        rc = 1
    if harness_errors:
        for h in harness_errors[:10]:
            print('HARNESS-ERROR: ' + h, file=sys.stderr)
        if rc == 0:
            rc = HARNESS_ERROR
    if (inconclusive or unenc and not fallback_notes) and rc == 0:
        print(f'INCONCLUSIVE: {inconclusive} inconclusive obligations/paths, {unenc} unencodable paths',
              file=sys.stderr)
        rc = HARNESS_ERROR

    extra_ev = None
    if hasattr(mod, 'EXTRA') and not args.kernel:
        xrc, extra_ev = mod.EXTRA(prop, argv if argv is not None else sys.argv[1:])
        if xrc == 1 or (xrc and rc == 0):
            rc = xrc
    if not args.no_evidence:
        samples = []
        for r in results:
            if r['error']:
                continue
            for s in r['stats']['samples'][:1]:
                samples.append({'kernel': r['kernel'], 'shape': r['shape'], **s})
        samples = samples[:12]
        files = sorted({f for f, _q in functions})
        ev = {
            'property_id': prop, 'tier': tier, 'seed': seed, 'level': 'other',
            'coverage': {
                'explanation': (
                    'Bounded symbolic execution of the real /repo functions on z3-backed proxy values '
                    '(decision-prefix DFS; every branch feasibility and every final obligation '
                    'pc AND NOT property decided by z3).  "evaluations" = complete symbolic paths, each '
                    'standing for the whole class of concrete inputs satisfying its path condition; '
                    '"obligations" = solver queries of the form pc AND NOT property, "discharged" = '
                    'those answered unsat.  Shapes (sizes/counts) are enumerated up to the stated bounds; '
                    'values inside a shape are quantified by the solver.'),
                'evaluations': total['complete'],
                'distinct_nontrivial': total['forked_paths'],
                'rule': ('one evaluation per feasible path of a (kernel, shape) scenario; distinct by '
                         'construction (different decision vectors); non-trivial = took at least one '
                         'two-sided symbolic decision and reached the final obligations'),
                'samples': samples or [{'note': 'no complete path'}],
                'obligations': total['obligations'], 'discharged': total['discharged'],
                'inconclusive': inconclusive, 'unencodable_paths': unenc,
                'paths_started': total['paths'], 'symbolic_decisions': total['decisions'],
                'solver_queries': total['queries'], 'solver_s': solver_s,
                'exhaustive': bool(truncated == 0 and inconclusive == 0 and unenc == 0 and not errors),
                'truncated_shapes': truncated,
                'kernels': {k.name: {'desc': k.desc, 'bounds': k.bounds, 'outside_bounds': k.outside,
                                     'encodes': k.encodes, **per_kernel.get(k.name, {})} for k in kernels},
                'functions_encoded': [f'{f}:{q}' for f, q in sorted(functions)],
                'source_sha256_16': {f: file_sha(os.path.join(REPO, f)) for f in files},
                'twin_validation': {'witnesses_replayed_natively': twin_checked, 'divergent': twin_bad},
                'second_solver': dict(cross, solver='z3 4.8.12 (/usr/bin/z3) on SMT-LIB2 dumps of sampled discharged '
                                                    'obligations (2 per shape)'),
                'known_findings_hit': sorted(seen_known),
                'concrete_fallbacks': fallback_notes,
                'harness_errors': harness_errors[:5],
                'solver': 'z3 ' + _z3_version(),
            },
            'assumptions': sorted(assumptions | {a for k in kernels for a in k.assumptions}),
            'wall_s': wall,
            'violations': len(reported),
        }
        if extra_ev:
            ev['coverage']['crosshair'] = extra_ev['coverage']
            ev['assumptions'] = sorted(set(ev['assumptions']) | set(extra_ev.get('assumptions', [])))
            ev['violations'] += extra_ev.get('violations', 0)
            ev['coverage']['exhaustive'] = bool(ev['coverage']['exhaustive'] and extra_ev['coverage'].get('exhaustive'))
        os.makedirs(os.path.join(VERIF, 'evidence'), exist_ok=True)
        with open(os.path.join(VERIF, 'evidence', f'{prop}.json'), 'w') as f:
            json.dump(ev, f, indent=1)
    if args.verbose:
        print(f'  phases: explore={t_explore}s total={wall}s')
    print(f'{prop} tier={tier}: kernels={len(kernels)} shapes={len(jobs)} paths={total["paths"]} '
          f'complete={total["complete"]} obligations={total["obligations"]} discharged={total["discharged"]} '
          f'inconclusive={inconclusive} violations={len(reported)} known={len(seen_known)} '
          f'queries={total["queries"]} solver_s={solver_s} wall_s={wall} rc={rc}')
    return rc


def _z3_version():
    try:
        import z3
        return z3.get_version_string()
    except Exception:   # noqa
        return '?'


def replay(prop, mod, path):
    item = json.load(open(path))
    res = run_native(prop, [item])[0]
    print(json.dumps(res, indent=1))
    if res['violation']:
        print(f'REPRODUCED property={prop} label={res["violation"]["label"]}')
        return 1
    print('not reproduced')
    return 0


if __name__ == '__main__':
    if len(sys.argv) > 1 and sys.argv[1] == '--native':
        sys.exit(native_main(sys.argv[2:]))
