"""CrossHair driver (secondary engine, JSON-typed arguments): analyses each target function of
props/c16_targets.py in its own process through CrossHair's API, records for every target
whether the post-condition was confirmed over all paths, not confirmed within the time budget
(no counterexample among the paths explored - reported as inconclusive, never as proved), or
refuted; refutations are replayed on an untraced interpreter before being reported.
"""
import argparse
import json
import multiprocessing as mp
import os
import re
import subprocess
import sys
import time

VERIF = os.path.dirname(os.path.dirname(os.path.abspath(__file__)))


def analyse(job):
    modname, fname, timeout = job
    t0 = time.time()
    out = {'target': fname, 'messages': [], 'error': None}
    try:
        import collections
        import importlib
        import z3
        stat = collections.Counter()
        orig = z3.Solver.check

        def timed(self, *a):
            t = time.perf_counter()
            r = orig(self, *a)
            stat['solver_s'] += time.perf_counter() - t
            stat['queries'] += 1
            return r
        z3.Solver.check = timed
        from crosshair.core_and_libs import analyze_function, run_checkables
        from crosshair.options import AnalysisOptionSet, AnalysisKind
        sys.path.insert(0, VERIF)
        mod = importlib.import_module(modname)
        fn = getattr(mod, fname)
        stats = collections.Counter()
        opts = AnalysisOptionSet(per_condition_timeout=float(timeout), analysis_kind=[AnalysisKind.PEP316],
                                 report_all=True, stats=stats, max_uninteresting_iterations=10 ** 9,
                                 per_path_timeout=max(5.0, float(timeout) / 4))
        for m in run_checkables(analyze_function(fn, opts)):
            out['messages'].append({'state': str(m.state).split('.')[-1], 'message': m.message[:1500]})
        out['stats'] = {k: v for k, v in stats.items() if isinstance(v, (int, float))}
        out['solver_s'] = round(stat['solver_s'], 3)
        out['queries'] = stat['queries']
    except BaseException as e:   # noqa
        import traceback
        out['error'] = ''.join(traceback.format_exception(type(e), e, e.__traceback__))[-2500:]
    out['wall_s'] = round(time.time() - t0, 2)
    return out


CALL_RE = re.compile(r'when calling (.*)$', re.S)


def replay_call(modname, call_src, timeout=120):
    '''Re-run a CrossHair counterexample call on a plain interpreter.  Returns (reproduced, detail).'''
    code = (f'import sys, json\nsys.path.insert(0, {VERIF!r})\nimport {modname} as m\n'
            f'from {modname} import *\n'
            'try:\n'
            f'    r = {call_src}\n'
            'except BaseException as e:\n'
            '    print("REPLAY " + json.dumps({"exc": type(e).__name__, "msg": str(e)[:300]}))\n'
            'else:\n'
            '    print("REPLAY " + json.dumps({"ret": bool(r)}))\n')
    p = subprocess.run([sys.executable, '-c', code], capture_output=True, text=True, timeout=timeout, cwd=VERIF,
                       env=dict(os.environ, PYTHONPATH=(os.environ.get('VERIF_REPO', '') + ':' if os.environ.get('VERIF_REPO') else '') + VERIF))
    for line in p.stdout.splitlines():
        if line.startswith('REPLAY '):
            d = json.loads(line[7:])
            if 'exc' in d:
                return d['exc'] not in ('RPCError', 'ReplyAndDisconnect'), d
            return d['ret'] is False, d
    return False, {'error': (p.stderr or p.stdout)[-500:]}


def main(prop, argv, modname='props.c16_targets', text=None, return_only=False):
    ap = argparse.ArgumentParser()
    ap.add_argument('--tier', default=os.environ.get('VERIF_TIER', 'quick'))
    ap.add_argument('--replay')
    ap.add_argument('--jobs', type=int, default=int(os.environ.get('VERIF_JOBS', '16')))
    ap.add_argument('--no-evidence', action='store_true')
    ap.add_argument('--target', action='append')
    args, _ = ap.parse_known_args(argv)
    tier = args.tier if args.tier in ('quick', 'thorough') else 'quick'
    seed = int(os.environ.get('VERIF_SEED', '0') or 0)
    if args.replay:
        item = json.load(open(args.replay))
        ok, d = replay_call(modname, item['call'])
        print(json.dumps(d))
        print('REPRODUCED' if ok else 'not reproduced')
        return 1 if ok else 0
    sys.path.insert(0, VERIF)
    import importlib
    from vlib.runner import load_known, match_known, HARNESS_ERROR
    targets = importlib.import_module(modname).TARGETS[prop]
    if args.target:
        targets = [t for t in targets if t in args.target]
    timeout = 12 if tier == 'quick' else 90
    t0 = time.time()
    os.environ.setdefault('VERIF_SCRATCH', os.path.join(os.environ.get('TMPDIR', '/tmp'),
                                                        f'verif-scratch-{os.getuid()}'))
    os.makedirs(os.environ['VERIF_SCRATCH'], exist_ok=True)
    ctx = mp.get_context('spawn')
    with ctx.Pool(min(args.jobs, len(targets)), maxtasksperchild=1) as pool:
        results = pool.map(analyse, [(modname, t, timeout) for t in targets], chunksize=1)
    known = load_known(prop)
    reported, known_hits, harness_errors = [], [], []
    # -- concrete adversarial corpus, natively (labelled complement) --------------------------------
    corpus_n = corpus_bad = 0
    corpus_fn = getattr(importlib.import_module(modname), 'corpus', None) if prop == 'C16' and not args.target else None
    if corpus_fn:
        code = (f'import sys, json\nsys.path.insert(0, {VERIF!r})\nimport {modname} as m\nbad = []\n'
                'items = m.corpus()\n'
                'for fn, a in items:\n'
                '    try:\n'
                '        ok = getattr(m, fn)(*a)\n'
                '        if not ok: bad.append([fn, repr(a), "postcondition"])\n'
                '    except BaseException as e:\n'
                '        bad.append([fn, repr(a), type(e).__name__ + ": " + str(e)[:120]])\n'
                'print("CORPUS " + json.dumps({"n": len(items), "bad": bad}))\n')
        p = subprocess.run([sys.executable, '-c', code], capture_output=True, text=True, timeout=600, cwd=VERIF,
                           env=dict(os.environ, PYTHONPATH=(os.environ.get('VERIF_REPO', '') + ':' if os.environ.get('VERIF_REPO') else '') + VERIF))
        got = [json.loads(l[7:]) for l in p.stdout.splitlines() if l.startswith('CORPUS ')]
        if not got:
            harness_errors.append('corpus run failed: ' + (p.stderr or p.stdout)[-600:])
        else:
            corpus_n, bad = got[0]['n'], got[0]['bad']
            corpus_bad = len(bad)
            seen = set()
            for fn, a, what in bad:
                sig = f'corpus:{fn}:{what.split(":")[0]}'
                if sig in seen:
                    continue
                seen.add(sig)
                item = {'kernel': fn, 'label': sig, 'call': f'{fn}(*{a})', 'message': what,
                        'native': {'exc': what}, 'detail': {'signature': sig}}
                f = match_known(known, fn, sig, item['detail'])
                (known_hits if f else reported).append((f, item) if f else item)
    confirmed = unconfirmed = refuted = 0
    paths = 0
    per_target = {}
    for r in results:
        st = r.get('stats') or {}
        n_paths = int(st.get('num_paths', 0) or 0)
        paths += n_paths
        entry = {'wall_s': r['wall_s'], 'paths': n_paths, 'solver_s': r.get('solver_s'),
                 'queries': r.get('queries'), 'verdict': None}
        per_target[r['target']] = entry
        if r['error'] and 'CrossHairInternal' in r['error']:
            unconfirmed += 1
            entry['verdict'] = 'inconclusive (CrossHair internal error: ' + r['error'].strip().splitlines()[-1][:160] + ')'
            continue
        if r['error']:
            harness_errors.append(f"{r['target']}: {r['error'][-600:]}")
            entry['verdict'] = 'harness-error'
            continue
        states = [m['state'] for m in r['messages']]
        bad = [m for m in r['messages'] if m['state'] in ('POST_FAIL', 'EXEC_ERR', 'POST_ERR', 'PRE_ERR')]
        if bad:
            m = bad[0]
            mt = CALL_RE.search(m['message'])
            call_src = mt.group(1).strip() if mt else None
            if call_src and ' with crosshair.patch_to_return(' in call_src:
                call_src = call_src[:call_src.index(' with crosshair.patch_to_return(')]
            ok, detail = (False, {'error': 'no call in message'})
            if call_src:
                try:
                    ok, detail = replay_call(modname, call_src)
                except Exception as e:   # noqa
                    detail = {'error': str(e)}
            if not ok:
                harness_errors.append(f"{r['target']}: counterexample did not reproduce untraced: "
                                      f"{m['message'][:300]} -> {detail}")
                entry['verdict'] = 'non-reproducing-counterexample'
                continue
            refuted += 1
            entry['verdict'] = 'refuted'
            sig = f"{r['target']}:{detail.get('exc', 'postcondition')}"
            item = {'kernel': r['target'], 'label': sig, 'call': call_src, 'message': m['message'][:600],
                    'native': detail, 'detail': {'signature': sig}}
            f = match_known(known, r['target'], sig, item['detail'])
            (known_hits if f else reported).append((f, item) if f else item)
        elif 'CONFIRMED' in states:
            confirmed += 1
            entry['verdict'] = 'confirmed-over-all-paths'
        else:
            unconfirmed += 1
            entry['verdict'] = 'not-confirmed (no counterexample in the paths explored; inconclusive)'
            entry['states'] = states
    rc = 0
    for f, item in known_hits:
        print(f"KNOWN-FINDING: property={prop} {f['signature']} -- {f.get('what', '')}")
    os.makedirs(os.path.join(VERIF, 'replays'), exist_ok=True)
    for n, item in enumerate(reported):
        path = os.path.join(VERIF, 'replays', f'{prop}-{item["kernel"]}-{n}.json')
        json.dump(item, open(path, 'w'), indent=1)
        print(f'VIOLATION property={prop} replay={path}')
        print(f'  target={item["kernel"]} call={item["call"][:300]} -> {item["native"]}')
        rc = 1
    for h in harness_errors[:8]:
        print('HARNESS-ERROR: ' + h, file=sys.stderr)
    if harness_errors and rc == 0:
        rc = HARNESS_ERROR
    wall = round(time.time() - t0, 2)
    if True:
        ev = {
            'property_id': prop, 'tier': tier, 'seed': seed, 'level': 'other',
            'coverage': {
                'explanation': (text or '') + (
                    ' CrossHair 0.0.110 (symbolic execution of Python over z3) analyses one wrapper per target; '
                    '"evaluations" = execution paths explored over all targets; per target the verdict is '
                    'confirmed-over-all-paths, not-confirmed (inconclusive: no counterexample among the paths '
                    'explored within the per-condition time budget) or refuted (counterexample replayed on an '
                    'untraced interpreter).'),
                'evaluations': max(paths, 1), 'distinct_nontrivial': max(paths - len(results), 2) if paths > 2 else 2,
                'rule': 'one evaluation per CrossHair execution path (distinct path conditions); non-trivial = '
                        'beyond the first path of a target',
                'samples': [{'target': t, **e} for t, e in list(per_target.items())[:8]],
                'targets': per_target,
                'confirmed_over_all_paths': confirmed, 'not_confirmed_inconclusive': unconfirmed, 'refuted': refuted,
                'per_condition_timeout_s': timeout,
                'bounds': 'JSON arguments: None/bool/int/float/str and lists/dicts of those (depth 2, <= 2 items); '
                          'strings <= 6 (8 for host names) characters on the arbitrary branch plus concrete '
                          'well-formed representatives (script hashes, tx hashes) selected by an integer',
                'exhaustive': unconfirmed == 0 and not harness_errors,
                'solver_s': round(sum((r.get('solver_s') or 0) for r in results), 2),
                'solver_queries': sum((r.get('queries') or 0) for r in results),
                'harness_errors': harness_errors[:5],
                'concrete_corpus': {'calls': corpus_n, 'failing': corpus_bad,
                                    'note': 'fixed adversarial JSON values run natively through the same wrappers - '
                                            'concrete coverage, not a solver verdict'},
                'known_findings_hit': [f['signature'] for f, _i in known_hits],
            },
            'assumptions': ['daemon, mempool API and name resolution are stubs (the resolution stub performs the '
                            'real offline argument encoding, then reports a resolution failure)',
                            'the session is created without a transport; cost accounting (bump_cost) is a no-op'],
            'wall_s': wall, 'violations': len(reported),
        }
        if not args.no_evidence and not return_only:
            os.makedirs(os.path.join(VERIF, 'evidence'), exist_ok=True)
            json.dump(ev, open(os.path.join(VERIF, 'evidence', f'{prop}.json'), 'w'), indent=1)
    print(f'{prop} tier={tier}: crosshair targets={len(results)} paths={paths} confirmed={confirmed} '
          f'not_confirmed={unconfirmed} refuted={refuted} violations={len(reported)} known={len(known_hits)} '
          f'wall_s={wall} rc={rc}')
    if return_only:
        return rc, ev
    return rc
