#!/usr/bin/env python3
"""tools/seedsave.py <ID> <name> <caught: yes|no|after-strengthening> <needs...> : copy a verified seeded change into /verif/seeded/<name>/"""
import json, os, shutil, sys
id_, name, caught = sys.argv[1:4]
needs = ' '.join(sys.argv[4:])
src = os.environ.get('SEEDROOT', '/tmp/seed') + f'/{id_}/out'
dst = f'/verif/seeded/{name}'
os.makedirs(dst, exist_ok=True)
for f in ('patch.diff', 'demo.py', 'notes.md'):
    if os.path.exists(f'{src}/{f}'):
        shutil.copy(f'{src}/{f}', f'{dst}/{f}')
meta = {
    'property': id_, 'needs_to_manifest': needs,
    'origin': 'written by an independent sub-agent that saw only the property text and its own scratch worktree',
    'confirmed': 'applied to a scratch worktree of /repo HEAD: existing suite still 142 passed (test_compaction fails '
                 'before and after); demo.py exits 0 without the change and 1 with it (tools/seedcheck.sh)',
    'ran': f'tools/seedcheck.sh {id_}  (git -C /repo apply patch.diff; ./check {id_} --tier quick; git -C /repo checkout -- .)',
    'detected_by_check': caught,
}
json.dump(meta, open(f'{dst}/meta.json', 'w'), indent=1)
print('saved', dst)
