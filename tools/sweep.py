#!/usr/bin/env python3
"""Private mutant sweep (development aid, not evidence): applies small mechanical mutations to the
anchored functions in a scratch worktree of /repo, drops the mutants the repository's own suite
kills, runs the relevant quick checks against the rest (VERIF_REPO) and lists the survivors for
triage (equivalent mutant, outside the bounds, or a gap to close).

usage: tools/sweep.py <target-name> [max_mutants] [seed]
"""
import ast
import json
import os
import random
import re
import subprocess
import sys

TARGETS = {
    'bp_index': ('electrumx/server/block_processor.py', ['advance_block', 'backup_block', 'spend_utxo'],
                 ['C01', 'C02', 'C03']),
    'bp_shell': ('electrumx/server/block_processor.py', ['next_block_hashes', 'reorg_chain', '_reorg_hashes',
                 '_calc_reorg_range', 'advance_blocks', 'on_caught_up', 'flush_if_safe', 'fetch_and_process_blocks',
                 'run_with_lock', 'force_chain_reorg'], ['C03', 'C05', 'C06', 'C07']),
    'odb': ('electrumx/server/block_processor.py', ['iter_txs', '_chunk_offsets', 'iter_txs_reversed', '_read_at_pos'],
            ['C13']),
    'db_flush': ('electrumx/server/db.py', ['flush_dbs', 'flush_fs', 'flush_utxo_db', 'flush_backup', 'backup_fs',
                 'flush_undo_infos', 'clear_excess_undo_info', 'min_undo_height', '_read_tx_counts', 'read_utxo_state',
                 'write_utxo_state'], ['C01', 'C03', 'C04', 'C15']),
    'db_read': ('electrumx/server/db.py', ['read_headers', 'fs_tx_hash', 'fs_tx_hashes_at_blockheight', 'fs_block_hashes',
                'limited_history', 'all_utxos', 'lookup_utxos', 'raw_header'], ['C01', 'C02', 'C17', 'C11']),
    'history': ('electrumx/server/history.py', ['add_unflushed', 'flush', 'backup', 'get_txnums', 'clear_excess', 'open_db',
                'read_state', 'write_state'], ['C02', 'C03', 'C04']),
    'compaction': ('electrumx/server/history.py', ['_flush_compaction', '_compact_hashX', '_compact_prefix',
                   '_compact_history', '_cancel_compaction'], ['C14']),
    'mempool': ('electrumx/server/mempool.py', ['_accept_transactions', '_refresh_hashes', '_process_mempool',
                '_fetch_and_accept', 'balance_delta', 'potential_spends', 'transaction_summaries', 'unordered_UTXOs'],
                ['C08', 'C09']),
    'notifications': ('electrumx/server/controller.py', ['_maybe_notify', 'start', 'on_mempool', 'on_block'], ['C20', 'C07']),
    'merkle': ('electrumx/lib/merkle.py', ['branch_length', 'branch_and_root', 'root', 'root_from_proof', 'level',
               'branch_and_root_from_level', '_leaf_start', '_extend_to', '_level_for', 'initialize', 'truncate'],
               ['C12', 'C11']),
    'tx': ('electrumx/lib/tx.py', ['serialize', 'read_varint', 'read_varbytes', 'read_input', 'read_output', 'read_many',
           'read_tx', 'read_tx_and_hash', 'is_generation'], ['C13', 'C01']),
    'daemon': ('electrumx/server/daemon.py', ['failover', '_post_json', '_get_to_file', '_send', '_send_single',
               '_send_vector', 'block_hex_hashes', 'getrawtransactions', 'height'], ['C18']),
    'session_mgr': ('electrumx/server/session.py', ['_merkle_branch', 'merkle_branch_for_tx_hash',
                    'tsc_merkle_proof_for_tx_hash', 'merkle_branch_for_tx_pos', 'tx_hashes_at_blockheight', 'raw_header',
                    'limited_history', '_notify_sessions', '_refresh_hsub_results', '_handle_chain_reorgs'],
                    ['C10', 'C11', 'C17', 'C07']),
    'session': ('electrumx/server/session.py', ['_notify_inner', 'address_status', 'subscription_address_status',
                'hashX_listunspent', 'hashX_subscribe', 'get_balance', 'unconfirmed_history',
                'confirmed_and_unconfirmed_history', '_merkle_proof', 'block_header', 'block_headers',
                'transaction_merkle', 'transaction_id_from_pos', 'unsubscribe_hashX', 'non_negative_integer',
                'scripthash_to_hashX', 'assert_tx_hash'], ['C07', 'C10', 'C11', 'C16', 'C17']),
    'peers': ('electrumx/server/peers.py', ['_get_recent_good_peers', 'on_peers_subscribe'], ['C19']),
    'peer': ('electrumx/lib/peer.py', ['peers_from_features', 'is_valid', 'is_public', 'ip_address',
             'bucket_for_external_interface', '_port', '_integer', 'to_tuple', 'real_name'], ['C19', 'C16']),
    'script': ('electrumx/lib/script.py', ['is_unspendable_legacy', 'is_unspendable_genesis'], ['C01']),
}

OPS = [
    (r'>=', '>'), (r'<=', '<'), (r'(?<![<>=!])>(?!=)', '>='), (r'(?<![<>=!])<(?!=)', '<='), (r'==', '!='), (r'!=', '=='),
    (r'\+ 1\b', '+ 2'), (r'- 1\b', '- 2'), (r'\+ 1\b', ''), (r' - 1\b', ''), (r'\band\b', 'or'), (r'\bor\b', 'and'),
    (r'\bTrue\b', 'False'), (r'\bFalse\b', 'True'), (r'\bnot ', ''), (r'\[:4\]', '[:3]'), (r'\[-13:-8\]', '[-12:-8]'),
    (r'\[-5:\]', '[-4:]'), (r'\[-9:\]', '[-8:]'), (r'\[-8:\]', '[-7:]'), (r'\[:-13\]', '[:-12]'), (r'\[-9:-5\]', '[-8:-5]'),
    (r'\bmin\(', 'max('), (r'\bmax\(', 'min('), (r'//', '/ 1 //'), (r'\* 2\b', '* 3'), (r'\b0\b', '1'), (r'\b1\b', '0'),
    (r'\.update\(', '.difference_update('), (r'\.add\(', '.discard('), (r'\.append\(', '.insert(0, '),
    (r'continue$', 'pass'), (r'break$', 'continue'), (r'\bheight\b', '(height - 1)'),
]


def func_ranges(src, names):
    tree = ast.parse(src)
    out = []
    for node in ast.walk(tree):
        if isinstance(node, (ast.FunctionDef, ast.AsyncFunctionDef)) and node.name in names:
            body_start = node.body[0].lineno
            if isinstance(node.body[0], ast.Expr) and isinstance(getattr(node.body[0], 'value', None), ast.Constant) \
                    and isinstance(node.body[0].value.value, str):
                body_start = (node.body[1].lineno if len(node.body) > 1 else node.end_lineno + 1)
            out.append((body_start, node.end_lineno, node.name))
    return out


def gen_mutants(src, names, rnd):
    lines = src.split('\n')
    muts = []
    for lo, hi, fname in func_ranges(src, names):
        for ln in range(lo, hi + 1):
            line = lines[ln - 1]
            code = line.split('#')[0]
            if not code.strip() or code.strip().startswith(("'''", '"""', 'logger.', 'self.logger.')):
                continue
            if 'logger.' in code or "f'" in code and ('info' in code or 'error' in code or 'warning' in code):
                continue
            for pat, rep in OPS:
                for m in re.finditer(pat, code):
                    new = code[:m.start()] + rep + code[m.end():] + line[len(code):]
                    if new != line:
                        muts.append((ln, fname, f'{pat} -> {rep}', new))
            # statement deletion (simple statements only)
            st = code.strip()
            if re.match(r'^(self\.|[a-z_]+\.)?[A-Za-z_\.\[\]]+(\(| = | \+= | -= )', st) and not st.endswith((':', ',', '(')) \
                    and st.count('(') == st.count(')'):
                indent = line[:len(line) - len(line.lstrip())]
                muts.append((ln, fname, 'delete statement', indent + 'pass'))
    rnd.shuffle(muts)
    return muts


def run(cmd, **kw):
    return subprocess.run(cmd, shell=True, capture_output=True, text=True, **kw)


def main():
    target = sys.argv[1]
    maxm = int(sys.argv[2]) if len(sys.argv) > 2 else 12
    seed = int(sys.argv[3]) if len(sys.argv) > 3 else 1
    path, names, props = TARGETS[target]
    rnd = random.Random(seed)
    wt = f'/tmp/mw/{target}'
    run(f'git -C /repo worktree remove --force {wt}')
    run('mkdir -p /tmp/mw')
    assert run(f'git -C /repo worktree add --detach {wt} HEAD').returncode == 0
    src = open(f'{wt}/{path}').read()
    muts = gen_mutants(src, set(names), rnd)
    results = []
    done = 0
    jobs = os.environ.get('VERIF_JOBS', '8')
    try:
        for ln, fname, op, new in muts:
            if done >= maxm:
                break
            lines = src.split('\n')
            old = lines[ln - 1]
            lines[ln - 1] = new
            open(f'{wt}/{path}', 'w').write('\n'.join(lines))
            if run(f'/venv/bin/python -m py_compile {wt}/{path}').returncode != 0:
                continue
            t = run(f'cd {wt} && timeout 300 /venv/bin/python -m pytest -q -x -p no:cacheprovider --timeout=120 tests '
                    f'-k "not test_compaction" 2>&1 | tail -1')
            if ' failed' in t.stdout or 'error' in t.stdout.lower():
                continue                      # killed by the repository's own suite
            done += 1
            verdicts = {}
            for p in props:
                r = run(f'cd /verif && VERIF_REPO={wt} VERIF_JOBS={jobs} VERIF_SHAPE_TIMEOUT=400 timeout 1500 ./check {p} '
                        f'--tier quick --no-evidence 2>&1 | tail -1')
                m = re.search(r'rc=(\d+)', r.stdout)
                verdicts[p] = int(m.group(1)) if m else -1
                if verdicts[p] == 1:
                    break
            killed = any(v == 1 for v in verdicts.values())
            rec = {'file': path, 'line': ln, 'func': fname, 'op': op, 'old': old.strip(), 'new': new.strip(),
                   'verdicts': verdicts, 'killed': killed}
            results.append(rec)
            print(('KILLED  ' if killed else 'SURVIVED') + f' {path}:{ln} {fname} [{op}] {old.strip()[:70]!r} -> '
                  f'{new.strip()[:70]!r} {verdicts}', flush=True)
    finally:
        open(f'{wt}/{path}', 'w').write(src)
        run(f'git -C /repo worktree remove --force {wt}')
    os.makedirs('/tmp/mw/results', exist_ok=True)
    json.dump(results, open(f'/tmp/mw/results/{target}-{seed}.json', 'w'), indent=1)
    k = sum(r['killed'] for r in results)
    print(f'{target}: {k}/{len(results)} killed')


if __name__ == '__main__':
    main()
