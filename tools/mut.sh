#!/bin/bash
# tools/mut.sh <prop> <file-under-repo> <python-regex-or-literal old> <new>  : apply a one-off mutation, run quick check, revert
prop=$1; f=$2; old=$3; new=$4
cd /repo && python3 - "$f" "$old" "$new" <<'PY'
import sys
f, old, new = sys.argv[1:4]
s = open(f).read()
assert s.count(old) >= 1, 'pattern not found'
s = s.replace(old, new, 1)
open(f, 'w').write(s)
PY
[ $? -eq 0 ] || exit 9
cd /verif && ./check $prop --tier quick --no-evidence ${@:5} 2>&1 | grep -v "^  kernel\|HARNESS-ERROR: twin" | tail -4
git -C /repo checkout -- . 
