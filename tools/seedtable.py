#!/usr/bin/env python3
"""Regenerates the seeds table of DESIGN.md (between the SEEDS-BEGIN / SEEDS-END markers) from seeded/*/meta.json."""
import glob, json, os, re
rows = []
missed = 0
for d in sorted(glob.glob('/verif/seeded/*/')):
    m = json.load(open(d + 'meta.json'))
    name = os.path.basename(d.rstrip('/'))
    det = m['detected_by_check']
    needs = m['needs_to_manifest'].replace('|', '/').replace('\n', ' ')
    if len(needs) > 210:
        needs = needs[:207] + '...'
    if det.startswith('yes'):
        res = 'caught' + (det[3:] if len(det) > 3 else '')
    else:
        missed += 1
        t = det.replace('after-strengthening', '').strip()
        t = t.strip('()').replace('first missed: ', '').replace('first missed', '')
        res = '**missed first** → ' + t.strip() + ' → caught'
    res = res.replace('|', '/').replace('\n', ' ')
    rows.append(f'| {name} | {needs} | {res} |')
table = '| seed | needs | result |\n|------|-------|--------|\n' + '\n'.join(rows)
p = '/verif/DESIGN.md'
s = open(p).read()
a, b = s.index('<!-- SEEDS-BEGIN -->'), s.index('<!-- SEEDS-END -->')
s = s[:a] + '<!-- SEEDS-BEGIN -->\n' + table + '\n' + s[b:]
s = re.sub(r'\d+ seeds, all detected now; \d+ were', f'{len(rows)} seeds, all detected now; {missed} were', s)
open(p, 'w').write(s)
print(len(rows), 'seeds,', missed, 'missed first')
