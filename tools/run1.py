"""Debug helper: run one (prop, kernel, shape) in-process and print stats.  Usage:
   .venv/bin/python tools/run1.py C12 K2 '{"n": 5}'"""
import sys, json, time
sys.path.insert(0, '/verif')
from vlib import runner
prop, kname, shape = sys.argv[1], sys.argv[2], json.loads(sys.argv[3]) if len(sys.argv) > 3 else {}
opts = {'max_paths': int(sys.argv[4])} if len(sys.argv) > 4 else {}
r = runner.worker((prop, kname, shape, opts))
if r['error']:
    print(r['error'])
else:
    st = r['stats']
    print({k: st[k] for k in ('paths', 'complete', 'aborted', 'obligations', 'discharged', 'inconclusive', 'queries', 'solver_s')}, 'wall', r['wall_s'])
    for k, n in r.get('fork_sites', []):
        print(n, k)
    for v in st['violations'][:3]:
        print('VIOL', json.dumps(v)[:1500])
    for s in st['samples'][:6]:
        print('SAMPLE', json.dumps(s)[:int(__import__("os").environ.get("SAMPLE_CHARS", "600"))])
