"""Run one replay file natively in-process with full traceback."""
import sys, json, traceback
sys.path.insert(0, '/verif')
import os
os.environ.setdefault('VERIF_SCRATCH', '/tmp/verif-scratch-0'); os.makedirs(os.environ['VERIF_SCRATCH'], exist_ok=True)
from vlib import symx, runner
import importlib
prop, path = sys.argv[1], sys.argv[2]
mod = importlib.import_module('props.' + prop.lower())
it = json.load(open(path))
k = {x.name: x for x in mod.KERNELS}[it['kernel']]
eng = symx.Engine(); eng.concrete = dict(it['inputs']); symx.set_engine(eng)
runner._install_prescription(it['inputs'].get('__hashes__') or [])
if k.setup: k.setup(it['shape'])
try:
    k.fn(it['shape']); print('no violation')
except BaseException as e:
    traceback.print_exc()
