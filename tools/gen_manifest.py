#!/usr/bin/env python3
"""Regenerates /verif/MANIFEST.json from the table below (keeps it schema-valid)."""
import json, os, sys
HERE = os.path.dirname(os.path.dirname(os.path.abspath(__file__)))
sys.path.insert(0, HERE)
from tools.manifest_table import CHECKS, NOT_APPLICABLE   # noqa

TECH = 'bounded symbolic execution of the real code on z3 proxies (SMT-decided per path)'
m = {
    'version': 1,
    'setup_cmd': './setup.sh',
    'hooks': {
        'guard': 'ELECTRUMX_VERIF',
        'enable': 'no hooks: instrumentation is applied at import time by /verif/vlib/shims.py (AST rewrite + '
                  'namespace rebinding of C boundaries) to the files currently in /repo; nothing under /repo is guarded',
        'baseline_off_cmd': 'cd /repo && /venv/bin/python -m pytest -ra -q -p no:cacheprovider --timeout=900 '
                            '--continue-on-collection-errors',
        'source_commits': [],
        'add_only': True,
    },
    'engines': [
        {'name': 'symx', 'path': 'vlib/symx.py',
         'serves_properties': sorted(c['id'] for c in CHECKS if c.get('engine', 'symx') == 'symx'),
         'kind_free_text': 'decision-prefix DFS symbolic execution of the real Python functions on z3-backed '
                           'proxy values (SBool/SInt/SWord/SBytes); C boundaries shimmed bit-exactly at import '
                           'time (vlib/shims.py); counterexamples replayed natively before being reported'},
        {'name': 'crosshair', 'path': 'vlib/xhair.py',
         'serves_properties': sorted(c['id'] for c in CHECKS if 'crosshair' in c.get('engine', '')),
         'kind_free_text': 'CrossHair 0.0.110 (z3-backed symbolic execution) for JSON-typed arguments'},
    ],
    'checks': [],
    'not_applicable': NOT_APPLICABLE,
    'notes': 'See DESIGN.md.  Exit 3 = harness error / inconclusive (never reported as pass or violation).  Known findings (open and fixed): known_findings.json, never written at run time.  Seeded changes: seeded/.',
}
for c in CHECKS:
    m['checks'].append({
        'property_id': c['id'],
        'quick_cmd': f"./check {c['id']} --tier quick",
        'thorough_cmd': f"./check {c['id']} --tier thorough",
        'evidence_file': f"evidence/{c['id']}.json",
        'replay_cmd_template': f"./check {c['id']} --replay {{path}}",
        'engine': c.get('engine', 'symx'),
        'level_claimed': {'category': 'other', 'text': c['text'], 'design_ref': c.get('design_ref', 'DESIGN.md section 4')},
        'level_note': c['note'],
        'technique': c.get('technique', TECH),
    })
json.dump(m, open(os.path.join(HERE, 'MANIFEST.json'), 'w'), indent=1)
print('wrote MANIFEST.json with', len(m['checks']), 'checks,', len(NOT_APPLICABLE), 'not applicable')
