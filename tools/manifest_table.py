CHECKS = [
 {'id': 'C20',
  'text': 'For every sequence of up to K calls (K<=4 quick, <=6 thorough) of the real Notifications object with '
          'symbolic call kinds and unbounded integer heights, z3 shows on every feasible path that a notification '
          'is only issued at a height both sources reported (N1) and that after one empty report from each source '
          'at any height H every item handed over at a height <= H has been notified (N3).  Bounded in the number '
          'of calls, unbounded in the heights.',
  'note': 'Trusted: CPython, z3 5.1, the symx proxies (SInt over z3 Int; dict/set lookups become == forks), '
          'witness replay on the unmodified module. Outside: more than K calls; non-singleton touched sets.',
  'design_ref': 'DESIGN.md section 4, C20'},
 {'id': 'C12',
  'text': 'K1: Merkle.branch_length executed on a symbolic integer; one z3 query shows 2^(r-1) < n <= 2^r for every '
          'n in [1, 2^62] (falls back to concrete boundary evaluation, labelled as such, if the implementation uses '
          'floating point).  K2: branch_and_root/root/root_from_proof/level/branch_and_root_from_level on n <= 17 '
          '(quick) / 65 (thorough) fully symbolic leaves with the hash an uninterpreted function: fold-back, '
          'root-by-definition, branch length, TSC markers proved by congruence for every index.  K3: MerkleCache '
          'initialise/query/truncate/query sequences over a symbolic source, all lengths/indices solver-enumerated, '
          'each result equal to the from-scratch one; in the order (overtaken query, query) the truncation happens during '
          'the k-th source read of a request (k solver-chosen) whose answer must be of the source before or after.',
  'note': 'Trusted: CPython, z3, symx proxies and the hash-as-uninterpreted-function model (equalities hold for every '
          'hash function); native replay of witnesses with real double_sha256. Outside: n above the bounds, longer '
          'cache operation sequences.',
  'design_ref': 'DESIGN.md section 4, C12'},
 {'id': 'C13',
  'text': 'K1/K2: real Tx.serialize -> Deserializer.read_tx_and_hash with every field byte symbolic (z3 bit-vectors '
          'through bit-exact struct shims): parsed fields, cursor, hashed bytes and re-serialisation proved equal for '
          'all values, and every proper prefix shown to raise, for the listed count / script-length shapes '
          '(varint boundaries 252/253/254, 65535/65536, 253 items).  K3: real OnDiskBlock.iter_txs/_chunk_offsets/'
          'iter_txs_reversed on an in-memory block file with chunk_size a symbolic integer >= 1 (all sizes: the file '
          'stub forks on size >= remaining): forward order exact, reverse order the exact reverse.',
  'note': 'Trusted: CPython, z3, symx proxies + struct/memoryview shims (validated by native witness replay on real '
          'files), double_sha256 as uninterpreted function. Outside: non-canonical varints, other shapes, blocks of '
          'more than 4 transactions.',
  'design_ref': 'DESIGN.md section 4, C13'},
 {'id': 'C01',
  'text': 'K3: a symbolic chain from genesis (tx hash prefixes, values, marked script bytes, spend selectors, activation '
          'height symbolic; flush schedule enumerated, incl. flushes right after the last block, clean restarts and re-opens for serving in mid-run; some shapes with the flat '
          'files split into physical files of two records) is indexed by the real advance_block/flush_dbs and all_utxos, '
          'lookup_utxos, counts, tip, headers and tx-hash files are proved equal to an independent reference indexer on '
          'every feasible path.  K1: UTXO table layout round trip with every key/value byte of 2-3 records symbolic '
          '(prefix+index collisions included) through the real flush_utxo_db / spend_utxo / all_utxos / lookup_utxos.  '
          'K2: one inductive step - advance_block of one symbolic block (and its backup) from an arbitrary valid '
          'flushed state of 2-3 fully symbolic UTXO records.  ODB: forward indexing through the real OnDiskBlock (block '
          'files, prefetcher, chunked reader with the chunk scaled down so blocks span several chunks), concrete content, '
          'one shape under a solver-chosen schedule deviation.',
  'note': 'Trusted: CPython, z3, symx proxies and shims (native witness replay on real LevelDB), MemStore/MemFS as '
          'models of LevelDB and files, sha256 as injective uninterpreted function (script-hash prefix collisions '
          'free), sorted() over symbolic keys in batch-building loops taken as order-insensitive. Outside: chains '
          'longer than 3 blocks, more than one free prefix-collision pair per scenario (K1 covers 3 mutually '
          'colliding records), prefetch batching, RocksDB.',
  'design_ref': 'DESIGN.md section 4, C01'},
 {'id': 'C02',
  'text': 'K3: the C01 chain scenario with limited_history (every script-hash class, every limit), fs_tx_hash and '
          'fs_tx_hashes_at_blockheight proved equal to the reference.  K1: history rows over several flushes with '
          'symbolic script hashes, solver-enumerated touched patterns and a symbolic limit (all integers).  K2: '
          'fs_tx_hash over symbolic cumulative counts and stored height (every bisect boundary).',
  'note': 'As C01.  Outside: tx numbers other than the listed byte-boundary values in K1, flush ids beyond 65535.',
  'design_ref': 'DESIGN.md section 4, C02'},
 {'id': 'C03',
  'text': 'K1: symbolic chains (as C01) are flushed, backed out by 1..3 calls of the real backup_block (undo info, '
          'History.backup, flush_backup) and re-advanced on a symbolic new branch that may spend anything unspent on '
          'the surviving chain; after the backup and after the re-advance (also after restart) every observable is '
          'proved equal to the reference of the surviving chain; shapes with the fork exactly as deep as the reorg limit '
          'after a multi-block catch-up.  K2: the real _calc_reorg_range against two chains '
          'sharing a prefix of symbolic length: start/count exact for every fork depth 1..D (D=8 quick, 32 thorough) '
          'at the listed heights, and for forced reorgs of any count.  K3: reorganisation stories (depth 1..3, natural '
          'and forced, non-respending branches) through the real asynchronous shell with the real OnDiskBlock (raw block '
          'files written by the stub daemon, real prefetch and chunked readers) under the gate scheduler.',
  'note': 'As C01.  Outside: forks deeper than 3 with real blocks (K2 carries depth), the asynchronous shell '
          '(reorg_chain prefetch/locking; see C06), heights other than those listed in K2.',
  'design_ref': 'DESIGN.md section 4, C03'},
 {'id': 'C04',
  'text': 'The crash point is a symbolic integer over the durable operations (each physical file write of flush_fs, '
          'the history batch, the UTXO batch, the state put, recovery batches); the operation hit is dropped (batch/put) '
          'or leaves arbitrary symbolic bytes (torn file write).  After restart through the real open_for_sync z3 shows, '
          'for all garbage bytes, that the stored height is between the last completed full flush and the block in '
          'progress, that every observable equals the reference at that height, and that resuming reaches the reference '
          'of the whole chain, after which the top block is backed out with the real backup_block (the undo information is '
          'part of what was committed).  Flush schedules enumerated; second crash during recovery in thorough; one shape '
          'with the flat files split into tiny physical files (a logical write = several crash points).  BATCHCFG: a '
          'concrete companion (not a solver verdict) opens the real LevelDB storage class and checks what the atomicity '
          'assumption rests on: an abandoned batch leaves nothing, a completed one survives a reopen.',
  'note': 'Assumes atomic LevelDB batches/puts and that completed file writes survive process death (no power loss). '
          'Trusted: as C01; crash counterexamples are replayed on real LevelDB/files with the same operation counter.',
  'design_ref': 'DESIGN.md section 4, C04'},
 {'id': 'C05',
  'text': 'The real asynchronous shell (fetch_and_process_blocks, reorg_chain, _calc_reorg_range, backup_block, '
          'flush_backup) runs on an asyncio loop against a fake daemon serving a block tree; the crash point is a '
          'symbolic integer over the durable operations performed once the reorganisation starts; after restart the '
          'daemon stays on the new branch, is back on the extended old branch, or (forced reorg) never changed; once '
          'idle the index is proved equal to the reference of the daemon\'s chain on every path.  The cut between the '
          'history-rollback batch and the UTXO-rollback batch with a continuation that does not re-detect the fork is '
          'a recorded known finding (three signatures); every other cut x continuation must pass; a server that '
          'never becomes idle after the restart (keeps polling without progress) is reported as a violation.',
  'note': 'As C04, plus: daemon RPCs, block prefetch (FakeODB) and the poll sleep are stubs (vlib/shell.py); worker '
          'threads run inline.  Outside: two crashes, forks deeper than 3, scenarios violating the property\'s '
          'height >= 2 x depth proviso.',
  'design_ref': 'DESIGN.md section 4, C05'},
 {'id': 'C14',
  'text': 'A history database is built through the real History.flush with every entry a symbolic 40-bit tx number; the '
          'compaction tool\'s loop (_compact_history/_compact_prefix/_compact_hashX/_flush_compaction, set_flush_count) '
          'runs with max_hist_row_entries 2/3 and a symbolic batch limit and is completed, or stopped after 1-2 batches '
          'and resumed, or abandoned by a normal start (_cancel_compaction); get_txnums of every script hash is proved '
          'unchanged at every stage, and a further flush plus History.backup at a symbolic threshold on top is proved '
          'equal to the reference; one mode: compaction killed between batches, start with no block pending (open for sync, '
          'then for serving), a block touching every script hash, second compaction, more blocks.  The real '
          'electrumx_compact_history script is also executed from its source.',
  'note': 'Under the property\'s own restriction (no script hash with more compacted rows than flushes).  Trusted: as C01; '
          'script-hash keys concrete (the tool walks all 65536 two-byte prefixes).',
  'design_ref': 'DESIGN.md section 4, C14'},
 {'id': 'C15',
  'text': 'k blocks are indexed by the real advance_block with the reorg limit a symbolic integer >= 1 and the daemon\'s '
          'cached height at each block symbolic (non-decreasing, caught up at the end); z3 shows for all limits and '
          'trajectories that undo information exists for every height in (tip-L, tip], that after a restart nothing '
          'older remains and the window is intact, and that the real backup_block succeeds for exactly min(L, k-1) '
          'blocks and then refuses with ChainError.  CRASHWIN: the same window after a crash at a symbolic durable operation, '
          'restart and resume (reorg limit concrete).  SHELLWIN: daemon-driven reorganisations exactly as deep as the limit '
          '(1, 2, 4; thorough also 3, 8) through the real asynchronous shell.',
  'note': 'Trusted: as C01.  Only comparisons are involved, so paths partition the integers by order type; k <= 3 '
          '(quick) / 5 (thorough) blocks.',
  'design_ref': 'DESIGN.md section 4, C15'},
 {'id': 'C17',
  'text': 'K1: real ElectrumX.block_headers + DB.read_headers with start_height, count, cp_height and tip all symbolic '
          'integers: returned count == min(count, 2016, headers available), bytes read == count*80 at start*80 inside '
          'the file, proof only for last <= cp <= tip - one z3 obligation set per order-type path, all integers '
          '(concrete companion K1c checks the hex).  K2: real SessionManager.limited_history / address_status / '
          'hashX_subscribe / subscription_address_status / _notify_inner with MAX_SEND symbolic and histories at '
          'limit-1, limit, limit+1: full history below, history-too-large at/above (also cached), nothing stored by a '
          'failed subscribe, subscription dropped on notification with no status hash sent; the first k reads of a request '
          'overtaken by a real _notify_sessions call.',
  'note': 'Stubs: headers file and header-merkle call record their arguments (K1); DB.limited_history returns the first '
          'limit entries of a fixed history (K2).  Trusted: CPython, z3, symx proxies (int() shadow keeps symbolic '
          'integers symbolic).',
  'design_ref': 'DESIGN.md section 4, C17'},
 {'id': 'C18',
  'text': 'Real Daemon._send/_send_single/_send_vector/_post_json/_get_to_file/failover and the public calls against a '
          'stub aiohttp session: every sequence of k <= 3 (quick) / 4-5 (thorough) faults over the 8 handled kinds '
          '(solver-enumerated) x 1..3 URLs x 7 calls, with init_retry/max_retry symbolic reals (0 < init <= max <= 16 '
          'init): result equals the stub daemon\'s answer position by position, genuine errors raise DaemonError '
          'unretried, sleeps and URLs follow the back-off / round-robin rule for all parameter values, the block '
          'file holds exactly the last attempt.',
  'note': 'Stubs: aiohttp session, asyncio.sleep, worker thread, block file; logging no-op; reals stand for floats '
          '(doubling/min/max exact).  Daemon assumed to answer batches in request order.',
  'design_ref': 'DESIGN.md section 4, C18'},
 {'id': 'C16', 'engine': 'crosshair',
  'technique': 'CrossHair (z3-backed symbolic execution of Python) over JSON-typed arguments; native replay',
  'text': 'One CrossHair wrapper per entry of ElectrumX.set_request_handlers (both protocol tables) and per argument '
          'validator: arguments are JSON-typed unions (None/bool/int/float/str, lists/dicts of those, strings <= 6 '
          'chars, plus well-formed representatives selected by an integer); the session is a real ElectrumX on a real '
          'SessionManager over a real populated LevelDB index; post-condition: JSON-serialisable result or RPCError/'
          'ReplyAndDisconnect, and on an error reply subscriptions, statuses and the other session are unchanged.  '
          'Per target the evidence says confirmed-over-all-paths / not-confirmed (inconclusive) / refuted; refutations '
          'are replayed untraced.  A fixed adversarial corpus is also run natively and labelled as concrete coverage.',
  'note': 'Bounded symbolic search: most targets end as not-confirmed within the per-condition budget (12 s quick, 90 s '
          'thorough), i.e. no counterexample among the paths explored - not a proof.  Stubs: daemon, mempool API, name '
          'resolution (runs the real pure-Python idna codec first), cost accounting.',
  'design_ref': 'DESIGN.md section 4, C16'},
 {'id': 'C19',
  'technique': 'symx bounded symbolic execution (K1 peer list, K3 announced ports as unbounded symbolic integers) + CrossHair on JSON feature dictionaries (K2)',
  'text': 'K1: real PeerManager.on_peers_subscribe/_get_recent_good_peers over peer sets drawn from a 30-entry '
          'hand-labelled address pool with every last_good and the clock symbolic reals, bad flags symbolic, '
          'random.shuffle a solver-chosen permutation, 0..60 onion peers, tor/non-tor: every advertised tuple is a '
          'recent, not-bad, publicly routable peer (by the pool labels) or a recently verified own identity, <= 2 per '
          '/16-/56 bucket, onion peers capped; in two scenarios host-name peers are re-verified at another address and '
          'the request is repeated.  K2: CrossHair on Peer.peers_from_features with JSON-typed feature '
          'dictionaries: never raises, ports None or in (0, 65536), public only for routable addresses / valid host '
          'names.  K3: symx on Peer.peers_from_features -> _port/_integer with tcp_port and ssl_port unbounded symbolic '
          'integers (or one slot a concrete non-integer JSON value): every port of the peer built is absent or in '
          '1..65535.',
  'note': 'K1 peer sets are enumerated (13 quick / 17 thorough), values inside are solver-quantified; K2 is bounded '
          'search (not-confirmed = inconclusive).  time.time / random.shuffle are symbolic stubs.',
  'design_ref': 'DESIGN.md section 4, C19'},
 {'id': 'C08',
  'text': 'Real MemPool._refresh_hashes/_process_mempool/_fetch_and_accept/_accept_transactions and the four query '
          'methods run on an asyncio loop against a MemPoolAPI stub answering from a reference world; all values are '
          'symbolic integers, the spend graph (confirmed outputs, mempool parents, generation-like inputs) and the '
          'hash-to-role assignment (= every delivery order) are solver-enumerated, arrival/eviction/confirmation '
          'events are enumerated; after every synchronised refresh balance delta, (hash, fee, flag) set, unconfirmed '
          'outputs, potential spends and the touched set are proved against the reference for every script-hash class; one '
          'shape scales the fetch batch size (200) down to 1 so that several batches are merged.  '
          'DBLOOKUP (shared with C09): a refresh wired to the REAL DB.lookup_utxos over a flushed symbolic chain, spent '
          'output solver-chosen, live outputs and an absent outpoint free to share compressed-hash prefix and index.',
  'note': 'Stubs: MemPoolAPI (reference world), read_tx (prepared Tx), run_in_thread, sleep.  Daemon-validity '
          'assumptions stated in the evidence.  <= 4 transactions, one fetch batch.',
  'design_ref': 'DESIGN.md section 4, C08'},
 {'id': 'C09',
  'text': 'As C08, but the world may change at every API call of a refresh (solver-enumerated placement and kind within '
          'a budget: block with/without the index catching up, catch-up, eviction with descendants, arrival, lookup '
          'miss); after every pass: nothing escaped, hashXs is the exact inverse of txs, every recorded transaction\'s '
          'input pairs and fee equal the reference; after two quiet refreshes the exact C08 view is proved.  DBLOOKUP: '
          'the refresh against the real DB.lookup_utxos (flushed symbolic chain): a transaction spending an outpoint that '
          'is not in the index - free to collide with indexed ones on prefix+index - is never recorded, one spending any '
          'live output is recorded with exactly the index\'s script hash and value; in one shape a block spending a '
          'solver-chosen live output is indexed and flushed between the two passes of lookup_utxos.',
  'note': 'As C08; 1 (quick) / 2 (thorough) world changes; heights only rise during a refresh.',
  'design_ref': 'DESIGN.md section 4, C09'},
 {'id': 'C07',
  'technique': 'symx gate scheduler: real components on an asyncio loop, bounded schedule deviations solver-enumerated',
  'text': 'The real DB, BlockProcessor, Notifications, MemPool, SessionManager and ElectrumX sessions are wired as '
          'Controller.serve wires them and driven by a gate scheduler (every daemon reply, worker-thread job start, '
          'thread-result delivery, block fetch and sleep is a gate); scripted stories of blocks, natural and forced '
          'reorgs, mempool arrivals / evictions / confirmations and subscriptions run with FIFO scheduling plus 1 '
          '(quick) / 2 (thorough) deviations chosen by the solver (postpone a gate for a full timer round, fire a timer '
          'early, inject the next event early; in marked stories also postpone a gate only until the other calls have '
          'drained); a server that spins without progress is a violation; at quiescence every subscriber holds the reference status and tip, no '
          'header notification preceded its block, no task died and the index equals the reference.',
  'note': 'Chain content concrete; the schedule is the symbolic input (choice variables decided by z3, counterexample '
          'schedules replayed natively on real LevelDB).  Stubs: daemon, prefetch/block files, worker threads, sleeps, '
          'mempool tx parser, session transport.',
  'design_ref': 'DESIGN.md section 4, C07'},
 {'id': 'C10',
  'technique': 'symx gate scheduler: real components on an asyncio loop, bounded schedule deviations solver-enumerated',
  'text': 'The C07 machinery with client queries (history, balance, listunspent, mempool, id-from-position) placed '
          'before, inside (right after backup_block returns; or with the read started just before the undo and delivered '
          'after the reorg handler ran) and after reorg windows or racing a block; at quiescence a proof request, then '
          'every query for the listed script-hash classes and every (height, position) is repeated and proved equal '
          'to the reference on the daemon\'s chain and mempool.',
  'note': 'As C07.',
  'design_ref': 'DESIGN.md section 4, C10'},
 {'id': 'C11',
  'technique': 'symx bounded symbolic execution (K1) + gate scheduler with solver-enumerated schedule deviations (K2)',
  'text': 'K1: the real proof handlers (transaction_merkle, transaction_tsc_merkle, transaction_id_from_pos, block_header, '
          'block_headers, _merkle_branch, header_branch_and_root, MerkleCache) on a real index whose headers carry the '
          'true merkle roots; height, position and checkpoint height are symbolic integers: out-of-range requests must '
          'raise RPCError, every in-range request (solver-enumerated) is folded by an independent hashlib-only function '
          'and must give the header\'s merkle root / the root of the current block hashes; blocks of 1..8 and 200..203 '
          'transactions.  K2: the full system under the gate scheduler with proofs requested before, inside and after '
          'reorg windows and header / tx-hash reads of in-flight requests postponed past the reorg (for a full timer round '
          'or only until the reorg has been processed); every answer given during a story must be consistent with one chain '
          'the daemon was on; at quiescence every header '
          'proof (height <= cp <= tip) and every transaction proof verifies against the current chain.',
  'note': 'Hashes are concrete in C11 so that the real double_sha256 can be folded independently (C12 covers the '
          'functions with symbolic leaves).  Stubs as C07.',
  'design_ref': 'DESIGN.md section 4, C11'},
 {'id': 'C06',
  'technique': 'symx gate scheduler with worker jobs in real threads parked at storage operations; shutdown placement and '
               'postponements solver-enumerated',
  'text': 'The real fetch_and_process_blocks (run_with_lock, asyncio.shield, flush_if_safe) runs in the full system under '
          'the gate scheduler through initial sync, a new block, a natural reorg and a forced reorg; shutdown (set the '
          'event, cancel every task) is a deviation the solver places at every scheduler step; the block processor\'s '
          'worker jobs run in real threads that park at every durable storage operation, each continuation being a gate, '
          'so a cancelled job can still be running while the shutdown path flushes; in the read-preemption scenarios '
          'the jobs also park at every store read, i.e. shutdown can land while a block is half advanced; cache-pressure '
          'flush requests are injected at block boundaries; one story keeps the real OnDiskBlock prefetcher (shutdown while '
          'downloads are in flight); a second deviation may postpone any gate.  After the task returned and the remaining threads finished, the database is reopened: stored height == '
          'height of the last completed block, index == reference at that height.',
  'note': 'Preemption granularity is one storage operation (writes everywhere, reads in the marked scenarios).  Counterexample schedules are replayed natively with '
          'real threads on real LevelDB.  Stubs as C07 (sessions and mempool not started).',
  'design_ref': 'DESIGN.md section 4, C06'},
]
_TODO = 'check not built yet in this revision (DESIGN.md section 4, C06: needs cancellation at every gate plus the thread-overlap mode); no claim is made'
NOT_APPLICABLE = [{'property_id': f'C{n:02d}', 'reason': _TODO} for n in range(1, 20) if n not in range(1, 21)]
