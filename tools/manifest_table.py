CHECKS = [
 {'id': 'C20',
  'text': 'For every sequence of up to K calls (K<=4 quick, <=6 thorough) of the real Notifications object with '
          'symbolic call kinds and unbounded integer heights, z3 shows on every feasible path that a notification '
          'is only issued at a height both sources reported (N1) and that after one empty report from each source '
          'at any height H every item handed over at a height <= H has been notified (N3).  Bounded in the number '
          'of calls, unbounded in the heights.',
  'note': 'Trusted: CPython, z3 5.1, the symx proxies (SInt over z3 Int; dict/set lookups become == forks), '
          'witness replay on the unmodified module. Outside: more than K calls; non-singleton touched sets.',
  'design_ref': 'DESIGN.md section 4, C20'},
]
_TODO = 'check not built yet in this revision (planned, see DESIGN.md section 4); no claim is made'
NOT_APPLICABLE = [{'property_id': f'C{n:02d}', 'reason': _TODO} for n in range(1, 20)]
