CHECKS = [
 {'id': 'C20',
  'text': 'For every sequence of up to K calls (K<=4 quick, <=6 thorough) of the real Notifications object with '
          'symbolic call kinds and unbounded integer heights, z3 shows on every feasible path that a notification '
          'is only issued at a height both sources reported (N1) and that after one empty report from each source '
          'at any height H every item handed over at a height <= H has been notified (N3).  Bounded in the number '
          'of calls, unbounded in the heights.',
  'note': 'Trusted: CPython, z3 5.1, the symx proxies (SInt over z3 Int; dict/set lookups become == forks), '
          'witness replay on the unmodified module. Outside: more than K calls; non-singleton touched sets.',
  'design_ref': 'DESIGN.md section 4, C20'},
 {'id': 'C12',
  'text': 'K1: Merkle.branch_length executed on a symbolic integer; one z3 query shows 2^(r-1) < n <= 2^r for every '
          'n in [1, 2^62] (falls back to concrete boundary evaluation, labelled as such, if the implementation uses '
          'floating point).  K2: branch_and_root/root/root_from_proof/level/branch_and_root_from_level on n <= 17 '
          '(quick) / 65 (thorough) fully symbolic leaves with the hash an uninterpreted function: fold-back, '
          'root-by-definition, branch length, TSC markers proved by congruence for every index.  K3: MerkleCache '
          'initialise/query/truncate/query sequences over a symbolic source, all lengths/indices solver-enumerated, '
          'each result equal to the from-scratch one.',
  'note': 'Trusted: CPython, z3, symx proxies and the hash-as-uninterpreted-function model (equalities hold for every '
          'hash function); native replay of witnesses with real double_sha256. Outside: n above the bounds, longer '
          'cache operation sequences.',
  'design_ref': 'DESIGN.md section 4, C12'},
 {'id': 'C13',
  'text': 'K1/K2: real Tx.serialize -> Deserializer.read_tx_and_hash with every field byte symbolic (z3 bit-vectors '
          'through bit-exact struct shims): parsed fields, cursor, hashed bytes and re-serialisation proved equal for '
          'all values, and every proper prefix shown to raise, for the listed count / script-length shapes '
          '(varint boundaries 252/253/254, 65535/65536, 253 items).  K3: real OnDiskBlock.iter_txs/_chunk_offsets/'
          'iter_txs_reversed on an in-memory block file with chunk_size a symbolic integer >= 1 (all sizes: the file '
          'stub forks on size >= remaining): forward order exact, reverse order the exact reverse.',
  'note': 'Trusted: CPython, z3, symx proxies + struct/memoryview shims (validated by native witness replay on real '
          'files), double_sha256 as uninterpreted function. Outside: non-canonical varints, other shapes, blocks of '
          'more than 4 transactions.',
  'design_ref': 'DESIGN.md section 4, C13'},
]
_TODO = 'check not built yet in this revision (planned, see DESIGN.md section 4); no claim is made'
NOT_APPLICABLE = [{'property_id': f'C{n:02d}', 'reason': _TODO} for n in range(1, 20) if n not in (12, 13)]
