#!/usr/bin/env python3
"""Development aid: wall time of every shape of one kernel, each in its own process under a cap.
usage: tools/shapetime.py <PROP> <KERNEL> <tier> <cap_s> [jobs]"""
import json, os, subprocess, sys, time
from concurrent.futures import ThreadPoolExecutor
sys.path.insert(0, '/verif')
prop, kname, tier, cap = sys.argv[1], sys.argv[2], sys.argv[3], int(sys.argv[4])
jobs = int(sys.argv[5]) if len(sys.argv) > 5 else 14
import importlib
mod = importlib.import_module('props.' + prop.lower())
k = [k for k in mod.KERNELS if k.name == kname][0]
shapes = k.shapes(tier)

def one(i):
    t = time.time()
    try:
        r = subprocess.run(['/verif/.venv/bin/python', '/verif/tools/run1.py', prop, kname, json.dumps(shapes[i])],
                           capture_output=True, text=True, timeout=cap, env=dict(os.environ, PYTHONPATH=os.environ.get('VERIF_REPO', '/repo') + ':/verif', PYTHONHASHSEED='0'))
        out = r.stdout.strip().splitlines()[0][:160] if r.stdout.strip() else r.stderr[-200:]
    except subprocess.TimeoutExpired:
        out = 'TIMEOUT'
    return i, round(time.time() - t, 1), out

with ThreadPoolExecutor(jobs) as ex:
    for i, w, out in ex.map(one, range(len(shapes))):
        print(i, w, json.dumps(shapes[i])[:230], '|', out[:120], flush=True)
