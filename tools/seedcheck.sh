#!/bin/bash
# tools/seedcheck.sh <ID> [tier] : verify the seeded change of /tmp/seed/<ID>/out in a scratch worktree (tests, demo
# with and without), then apply it to /repo, run ./check <ID>, and undo it.
id=$1; tier=${2:-quick}; out=${SEEDROOT:-/tmp/seed}/$id/out; wt=/tmp/seedv/$id
[ -f $out/patch.diff ] || { echo "no patch"; exit 2; }
rm -rf $wt; mkdir -p /tmp/seedv; git -C /repo worktree add -q --detach $wt HEAD || exit 2
cd $wt
PYTHONPATH=$wt timeout 600 /venv/bin/python $out/demo.py >/tmp/seedv/$id.demo0.log 2>&1; d0=$?
git apply $out/patch.diff || { echo "patch does not apply"; cd /; git -C /repo worktree remove --force $wt; exit 2; }
t=$(timeout 900 /venv/bin/python -m pytest -q -p no:cacheprovider --timeout=900 tests 2>&1 | tail -1)
PYTHONPATH=$wt timeout 600 /venv/bin/python $out/demo.py >/tmp/seedv/$id.demo1.log 2>&1; d1=$?
cd /; git -C /repo worktree remove --force $wt
echo "SEED $id: tests with change: $t | demo without=$d0 with=$d1"
git -C /repo apply $out/patch.diff || { echo "cannot apply to /repo"; exit 2; }
cd /verif; timeout 3000 ./check $id --tier $tier --no-evidence 2>&1 | grep -v "^  \|HARNESS-ERROR: twin" | cut -c1-260 | tail -4
git -C /repo checkout -- .
git -C /repo status --short | head -3
